#!/bin/bash
# usage: try_mutant.sh <seeded-name> <Cxx> [tier]   applies the seeded patch to /repo, runs the check, reverts.
NAME=$1; PROP=$2; TIER=${3:-quick}
cd /verif
git -C /repo diff --quiet || { echo "/repo not clean"; exit 2; }
git -C /repo apply /verif/seeded/$NAME/patch.diff || exit 2
cp evidence/$PROP.json /tmp/mut/evidence-$PROP.bak 2>/dev/null
./check $PROP $TIER > /tmp/mut/try-$NAME-$PROP.log 2>&1; rc=$?
cp /tmp/mut/evidence-$PROP.bak evidence/$PROP.json 2>/dev/null
git -C /repo checkout -- .
echo "mutant=$NAME check=$PROP tier=$TIER exit=$rc"
grep -E "VIOLATION|violation signature|verdict=|INCONCLUSIVE|BUILD-ERROR" /tmp/mut/try-$NAME-$PROP.log | head -8
