#!/bin/bash
# usage: confirm_mutant.sh <worktree> <name>   (worktree left by a sub-agent: patch applied, demo in place, OUT/ deliverables)
# Confirms: compiles + existing lib/doc tests pass with the change; demo fails with the change; demo passes without it.
# Then stores /verif/seeded/<name>/{patch.diff,demo.rs,meta.json,confirm.log}.
WT=$1; NAME=$2
LOG=/tmp/mut/$NAME.confirm.log
export CARGO_NET_OFFLINE=true
cd $WT || exit 2
DEMO_CMD=$(python3 -c "import json;print(json.load(open('OUT/meta.json'))['demo_cmd'])")
{
echo "== state: $(git status --short | tr '\n' ' ')"
# make sure the patch is applied
if git apply --check OUT/patch.diff 2>/dev/null; then git apply OUT/patch.diff; echo "(patch was not applied; applied)"; fi
echo "== suite with change (lib + doc tests; demo target excluded)"
cargo test --workspace --lib --offline -j 8 --no-fail-fast -- --test-threads 8 2>&1 | grep -E "^test result|FAILED|failed|panicked" | head -40
cargo test --workspace --doc --offline -j 8 2>&1 | grep -E "^test result|FAILED" | head
echo "== demo with change (must fail)"
bash -c "$DEMO_CMD" 2>&1 | grep -E "^test |test result|error" | head -20
echo "== demo without change (must pass)"
git apply -R OUT/patch.diff
bash -c "$DEMO_CMD" 2>&1 | grep -E "^test |test result|error" | head -20
git apply OUT/patch.diff
} > $LOG 2>&1
mkdir -p /verif/seeded/$NAME
cp OUT/patch.diff OUT/demo.rs /verif/seeded/$NAME/
cp OUT/meta.json /verif/seeded/$NAME/agent_meta.json
cp $LOG /verif/seeded/$NAME/confirm.log
echo "confirmed $NAME -> $LOG"
