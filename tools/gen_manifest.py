#!/usr/bin/env python3
"""Regenerates /verif/MANIFEST.json from the table below (run after adding a check)."""
import json
import os
import subprocess

VERIF = os.path.dirname(os.path.dirname(os.path.abspath(__file__)))

# id: (built, level, technique, level text, level note, design ref)
CHECKS = {
    "C01": (False, "exploration", "runtime differential monitor: generated circuit programs proved+verified, public inputs compared with a direct interpreter", "", "", "§3 C01"),
    "C02": (False, "fault_enumeration", "fault-injecting prover (hooked knobs) + reject oracle at the verifier", "", "", "§3 C02"),
    "C03": (False, "fault_enumeration", "exhaustive per-element proof tampering + reject oracle", "", "", "§3 C03"),
    "C04": (False, "exploration", "transcript dependency monitor over recomputed challenges", "", "", "§3 C04"),
    "C05": (False, "fault_enumeration", "stand-alone FRI runs with adversarial provers and fixed-challenge edits", "", "", "§3 C05"),
    "C06": (False, "exploration", "differential monitor native verifier vs in-circuit verifier (witness generation + satisfaction oracle)", "", "", "§3 C06"),
    "C07": (False, "fault_enumeration", "per-wire perturbation of generator-filled gate rows + evaluator differential", "", "", "§3 C07"),
    "C08": (False, "fault_enumeration", "multiset reference model + fault-injecting prover", "", "", "§3 C08"),
    "C09": (False, "fault_enumeration", "independent row predicates + trace corruption + proof tampering", "", "", "§3 C09"),
    "C10": (False, "fault_enumeration", "multiset reference model for lookups / CTLs + corruption", "", "", "§3 C10"),
    "C11": (False, "exploration", "differential monitor native STARK verifier vs in-circuit verifier", "", "", "§3 C11"),
    "C12": (True, "exploration", "naive reference Merkle tree + hasher event-log checker under varied thread pools + Miri", "Trees of every shape in the bound (2^0..2^9 leaves quick / 2^13 thorough, verbatim and hashed leaf widths, every cap height, degenerate leaf sets, Poseidon and Keccak, batch trees with up to 4 heights) are built under pools of 1..16 threads; caps and proofs must equal a naive level-by-level reference, ~20 altered probes per opened position must get the reference verifier"s verdict, and a tracing hasher"s event log is checked offline for exactly-once hashing and produced-before-consumed. Exploration: held on the shapes, probes and interleavings executed.", "Trusted: H::two_to_one / H::hash_or_noop as primitives (C13 checks them), the harness reference tree. The event log observes hash calls, not raw memory; uninitialised-slot reads surface only as digests no event produced. Miri/TSan on the MaybeUninit code are in the thorough tier (see DESIGN).", "§3 C12"),
    "C13": (True, "exploration", "differential monitor vs textbook Poseidon / sponge / duplex models, scalar+AVX2+AVX-512 builds", "1.5*10^6 (quick) / 3*10^7 (thorough) boundary-biased 12-lane states incl. non-canonical lanes are permuted by the crate (poseidon, poseidon_naive, mds_layer, PoseidonPermutation) and by a textbook Poseidon over u128 arithmetic with a pinned copy of the published constants (self-checked against the published test vectors each run); hash_no_pad/hash_pad/hash_or_noop/two_to_one/hash_n_to_m for all lengths 0..40 against a 15-line overwrite sponge; 10^4 random challenger scripts against a duplex model and replayed with different chunking; RecursiveChallenger via witness generation; Keccak permutation/hasher against an own Keccak-f. Run in chk, rel, AVX2, AVX-512 builds.", "Trusted: harness reference Poseidon/Keccak/sponge models and the pinned constants file. Not covered: states not sampled.", "§3 C13"),
    "C14": (
        True,
        "exploration",
        "runtime differential monitor vs u128/schoolbook reference + hooked assumption monitor, run in chk/rel/AVX2/AVX-512 builds",
        "Every scalar, reduction, extension and packed-lane operation is executed on all pairs of a 71-value boundary set and on 2*10^7 (quick) / 4*10^8 (thorough) structured-random operand tuples per build variant and compared with u128 arithmetic; hook H1 proves the rare carry/borrow branches ran and traps a violated assume() instead of executing UB. Exploration is the right level: the operand space is 2^128 and the claim is 'held on the tuples executed, which are biased to every carry boundary'.",
        "Trusted: Rust u128 `%`, the harness's schoolbook extension product, num::BigUint for exponents. Not covered: operand tuples not sampled; the x86 asm path is checked differentially (and under Miri only through its portable twin).",
        "§3 C14",
    ),
    "C15": (True, "exploration", "differential monitor vs O(n^2) DFT / schoolbook polynomial algebra, SIMD builds, Miri on the unsafe permutation helpers", "FFT/IFFT/coset variants for every size 2^0..2^10 against an O(n^2) DFT and up to 2^18 (quick) / 2^21 (thorough) by 24-point Horner spot checks, every zero-tail factor, with/without root table (over-long tables must be refused with the documented panic), LDE; polynomial mul/add/sub/eval/div_rem/long division/divide_by_linear/inv_mod_xn over a grid of operand lengths incl. zero, constant, equal-degree; interpolation; ZeroPolyOnCoset; coset shifts; in-place and copying bit reversal for every log-size up to 19/22 and element sizes 1 B..16 KiB (small, chunked-even, chunked-odd, BIG_T paths counted); transpose; log helpers. Run in chk, AVX2, AVX-512 builds.", "Trusted: harness O(n^2) DFT and schoolbook algebra over u128. Sizes above the bound and operand values not sampled are not covered.", "§3 C15"),
    "C16": (False, "exploration", "round-trip + verdict-equivalence monitor on proofs with forced index/coset collisions", "", "", "§3 C16"),
    "C17": (False, "exploration", "serialization round-trip + interchange monitor", "", "", "§3 C17"),
    "C18": (False, "fault_enumeration", "malformed-input catalogue under a panic/abort/allocation supervisor", "", "", "§3 C18"),
    "C19": (False, "exploration", "cross-build / cross-schedule differential of deterministic artefacts + proof exchange", "", "", "§3 C19"),
    "C20": (False, "exploration", "truth-table differential for conditional recursion + chain history monitor for cyclic recursion", "", "", "§3 C20"),
}


def main():
    try:
        hook_commits = subprocess.check_output(
            ["git", "-C", "/repo", "log", "--format=%H %s", "--grep=^verif_hooks"], text=True
        ).strip().splitlines()
    except Exception:
        hook_commits = []
    checks = []
    na = []
    for pid, (built, level, tech, text, note, ref) in sorted(CHECKS.items()):
        if not built:
            na.append({"property_id": pid, "reason": "runtime monitor designed (DESIGN.md %s) but not built yet in this revision; not claimed" % ref})
            continue
        checks.append({
            "property_id": pid,
            "quick_cmd": "./check %s quick" % pid,
            "thorough_cmd": "./check %s thorough" % pid,
            "evidence_file": "/verif/evidence/%s.json" % pid,
            "replay_cmd_template": "./check --replay {path}",
            "engine": "pv",
            "level_claimed": {"category": level, "text": text, "design_ref": "DESIGN.md " + ref},
            "level_note": note,
            "technique": tech,
        })
    manifest = {
        "version": 1,
        "setup_cmd": "./check --setup",
        "hooks": {
            "guard": "cargo feature `verif_hooks` (plonky2_util, plonky2_field, plonky2, starky); off by default",
            "enable": "harness crate /verif/harness/pv depends on /repo crates by path with features = [\"verif_hooks\"]; `./check` rebuilds it (cargo, offline) from /repo's working tree on every invocation",
            "baseline_off_cmd": "cd /repo && cargo nextest run --workspace --no-fail-fast --tool-config-file pb:/w/lib/nextest.toml --profile pb --test-threads 8 --offline || cargo test --workspace --no-fail-fast --offline",
            "source_commits": [c.split()[0] for c in hook_commits],
            "add_only": True,
        },
        "engines": [
            {
                "name": "pv",
                "path": "/verif/harness/pv",
                "serves_properties": [c["property_id"] for c in checks],
                "kind_free_text": "Rust monitor binary (reference models, generators, fault injectors, event-log checkers) built in several variants (checked-release, release, AVX2, AVX-512, alternate hash seed); driver /verif/check",
            }
        ],
        "checks": checks,
        "not_applicable": na,
        "notes": "Technique family: runtime monitoring and sanitizers. Verdicts are three-valued: exit 0 held-on-observed, exit 1 VIOLATION, exit 2 inconclusive (never folded into the others). Known findings: /verif/known_findings.jsonl.",
    }
    with open(os.path.join(VERIF, "MANIFEST.json"), "w") as f:
        json.dump(manifest, f, indent=1)
        f.write("\n")
    print("claimed:", [c["property_id"] for c in checks])


if __name__ == "__main__":
    main()
