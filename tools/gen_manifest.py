#!/usr/bin/env python3
"""Regenerates /verif/MANIFEST.json from the table below (run after adding a check)."""
import json
import os
import subprocess

VERIF = os.path.dirname(os.path.dirname(os.path.abspath(__file__)))

# id: (built, level, technique, level text, level note, design ref)
CHECKS = json.load(open(os.path.join(VERIF, "tools", "checks.json")))


def main():
    try:
        hook_commits = subprocess.check_output(
            ["git", "-C", "/repo", "log", "--format=%H %s", "--grep=^verif_hooks"], text=True
        ).strip().splitlines()
    except Exception:
        hook_commits = []
    checks = []
    na = []
    for pid, c in sorted(CHECKS.items()):
        built, level, tech, text, note, ref = c["built"], c["level"], c["technique"], c["text"], c["note"], c["design_ref"]
        if not built:
            na.append({"property_id": pid, "reason": "runtime monitor designed (DESIGN.md %s) but not built yet in this revision; not claimed" % ref})
            continue
        checks.append({
            "property_id": pid,
            "quick_cmd": "./check %s quick" % pid,
            "thorough_cmd": "./check %s thorough" % pid,
            "evidence_file": "/verif/evidence/%s.json" % pid,
            "replay_cmd_template": "./check --replay {path}",
            "engine": "pv",
            "level_claimed": {"category": level, "text": text, "design_ref": "DESIGN.md " + ref},
            "level_note": note,
            "technique": tech,
        })
    manifest = {
        "version": 1,
        "setup_cmd": "./check --setup",
        "hooks": {
            "guard": "cargo feature `verif_hooks` (plonky2_util, plonky2_field, plonky2, starky); off by default",
            "enable": "harness crate /verif/harness/pv depends on /repo crates by path with features = [\"verif_hooks\"]; `./check` rebuilds it (cargo, offline) from /repo's working tree on every invocation",
            "baseline_off_cmd": "cd /repo && cargo nextest run --workspace --no-fail-fast --tool-config-file pb:/w/lib/nextest.toml --profile pb --test-threads 8 --offline || cargo test --workspace --no-fail-fast --offline",
            "source_commits": [c.split()[0] for c in hook_commits],
            "add_only": True,
        },
        "engines": [
            {
                "name": "pv",
                "path": "/verif/harness/pv",
                "serves_properties": [c["property_id"] for c in checks],
                "kind_free_text": "Rust monitor binary (reference models, generators, fault injectors, event-log checkers) built in several variants (checked-release, release, AVX2, AVX-512, alternate hash seed); driver /verif/check",
            }
        ],
        "checks": checks,
        "not_applicable": na,
        "notes": "Technique family: runtime monitoring and sanitizers. Verdicts are three-valued: exit 0 held-on-observed, exit 1 VIOLATION, exit 2 inconclusive (never folded into the others). Known findings: /verif/known_findings.jsonl.",
    }
    with open(os.path.join(VERIF, "MANIFEST.json"), "w") as f:
        json.dump(manifest, f, indent=1)
        f.write("\n")
    print("claimed:", [c["property_id"] for c in checks])


if __name__ == "__main__":
    main()
