#!/usr/bin/env python3
"""usage: setcheck.py Cxx <<< '{"text":..., "note":..., ["technique":...]}'  -> marks built and regenerates the manifest"""
import json, sys, os, subprocess
V=os.path.dirname(os.path.dirname(os.path.abspath(__file__)))
p=os.path.join(V,'tools','checks.json')
d=json.load(open(p))
upd=json.load(sys.stdin)
d[sys.argv[1]].update(upd); d[sys.argv[1]]['built']=True
json.dump(d,open(p,'w'),indent=1)
subprocess.check_call([sys.executable, os.path.join(V,'tools','gen_manifest.py')])
