#!/usr/bin/env python3
"""usage: seed_meta.py <name> <caught_by e.g. 'C03 quick'> [note]  -> writes /verif/seeded/<name>/meta.json"""
import json, sys, os
name=sys.argv[1]; caught=sys.argv[2]; note=sys.argv[3] if len(sys.argv)>3 else ""
d=os.path.join('/verif/seeded',name)
a=json.load(open(os.path.join(d,'agent_meta.json')))
conf=open(os.path.join(d,'confirm.log')).read()
meta={
 "name": name,
 "breaks_property": a.get("property"),
 "summary": a.get("summary"),
 "files": a.get("files"),
 "needs_to_manifest": a.get("needs_to_manifest"),
 "why_existing_tests_pass": a.get("why_tests_pass"),
 "demonstration": {"file": "demo.rs", "cmd": a.get("demo_cmd"), "placement": "first line of demo.rs"},
 "origin": "written by an independent sub-agent that saw only the property text and a scratch worktree of /repo",
 "confirmed_by_me": {
   "how": "tools/confirm_mutant.sh in the scratch worktree: cargo test --workspace --lib and --doc with the change (all existing tests pass), demonstration with the change (fails), demonstration with the change reverted (passes); log in confirm.log",
   "existing_suite_with_change": "pass" if "FAILED" not in conf.split("== demo with change")[0] else "CHECK confirm.log",
   "demo_with_change": "fail" if "FAILED" in conf.split("== demo with change")[1].split("== demo without")[0] else "CHECK",
   "demo_without_change": "pass" if "FAILED" not in conf.split("== demo without change")[1] else "CHECK",
 },
 "detected_by": caught,
 "how_checked": "tools/try_mutant.sh %s <Cxx>: git -C /repo apply patch.diff; ./check <Cxx> quick; git -C /repo checkout -- ." % name,
 "note": note,
}
json.dump(meta,open(os.path.join(d,'meta.json'),'w'),indent=1)
print(name, meta["confirmed_by_me"]["existing_suite_with_change"], meta["confirmed_by_me"]["demo_with_change"], meta["confirmed_by_me"]["demo_without_change"])
