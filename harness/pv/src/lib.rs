#![allow(clippy::needless_range_loop)]
pub mod circ;
pub mod gen;
pub mod mon;
pub mod poseidon_consts;
pub mod props;
pub mod refmodel;
pub mod sat;
pub mod stk;
pub mod tamper;
