#![allow(clippy::needless_range_loop)]
pub mod gen;
pub mod mon;
pub mod props;
pub mod refmodel;
