#![allow(clippy::needless_range_loop)]
pub mod gen;
pub mod mon;
pub mod poseidon_consts;
pub mod props;
pub mod refmodel;
