//! Monitor plumbing: three-valued verdicts, panic capture, known findings, evidence writer.

use std::collections::{BTreeMap, HashSet};
use std::hash::{Hash, Hasher};
use std::panic::{catch_unwind, AssertUnwindSafe};
use std::path::PathBuf;
use std::sync::Mutex;
use std::time::Instant;

use rand::SeedableRng;
use rand_chacha::ChaCha8Rng;
use serde_json::{json, Map, Value};

#[derive(Clone, Copy, Debug, PartialEq, Eq)]
pub enum Tier {
    Quick,
    Thorough,
    /// The quick workload shrunk by three to five orders of magnitude: what an interpreter (Miri) or a
    /// heavy sanitizer can execute. Same oracles, same code paths, tiny counts.
    Micro,
}

pub fn verif_dir() -> PathBuf {
    PathBuf::from(std::env::var("VERIF_DIR").unwrap_or_else(|_| "/verif".to_string()))
}

pub fn env_seed() -> u64 {
    std::env::var("VERIF_SEED")
        .ok()
        .and_then(|s| s.trim().parse::<i64>().ok())
        .map(|x| x as u64)
        .unwrap_or(1)
}

fn mix(mut z: u64) -> u64 {
    z = z.wrapping_add(0x9E3779B97F4A7C15);
    z = (z ^ (z >> 30)).wrapping_mul(0xBF58476D1CE4E5B9);
    z = (z ^ (z >> 27)).wrapping_mul(0x94D049BB133111EB);
    z ^ (z >> 31)
}

/// Deterministic per-(seed, stream, case) generator.
pub fn case_rng(seed: u64, stream: u64, case: u64) -> ChaCha8Rng {
    ChaCha8Rng::seed_from_u64(mix(mix(mix(seed) ^ stream) ^ case))
}

// ---------------------------------------------------------------------------------------------
// Panic capture

#[derive(Clone, Debug)]
pub struct PanicRec {
    pub msg: String,
    pub loc: String,
}

static LAST_PANIC: Mutex<Option<PanicRec>> = Mutex::new(None);
thread_local! {
    static LAST_PANIC_TL: std::cell::RefCell<Option<PanicRec>> = const { std::cell::RefCell::new(None) };
}
static QUIET: std::sync::atomic::AtomicBool = std::sync::atomic::AtomicBool::new(true);

pub fn install_panic_hook() {
    if std::env::var("PV_LOUD").is_ok() {
        set_quiet(false);
    }
    std::panic::set_hook(Box::new(|info| {
        let msg = if let Some(s) = info.payload().downcast_ref::<&str>() {
            s.to_string()
        } else if let Some(s) = info.payload().downcast_ref::<String>() {
            s.clone()
        } else {
            "<non-string panic>".to_string()
        };
        let loc = info
            .location()
            .map(|l| format!("{}:{}", l.file(), l.line()))
            .unwrap_or_default();
        if !QUIET.load(std::sync::atomic::Ordering::Relaxed) {
            eprintln!("panic at {loc}: {msg}");
        }
        let rec = PanicRec { msg, loc };
        LAST_PANIC_TL.with(|c| *c.borrow_mut() = Some(rec.clone()));
        *LAST_PANIC.lock().unwrap_or_else(|e| e.into_inner()) = Some(rec);
    }));
}

pub fn set_quiet(q: bool) {
    QUIET.store(q, std::sync::atomic::Ordering::Relaxed);
}

/// Runs `f`, turning a panic into `Err(PanicRec)`.
pub fn catch<T>(f: impl FnOnce() -> T) -> Result<T, PanicRec> {
    LAST_PANIC_TL.with(|c| *c.borrow_mut() = None);
    match catch_unwind(AssertUnwindSafe(f)) {
        Ok(v) => Ok(v),
        Err(payload) => {
            // a panic on this thread is in the thread-local; a panic on a rayon worker that was
            // propagated to us is only in the global slot
            let rec = LAST_PANIC_TL
                .with(|c| c.borrow_mut().take())
                .or_else(|| LAST_PANIC.lock().unwrap_or_else(|e| e.into_inner()).take());
            Err(rec.unwrap_or_else(|| {
                let msg = if let Some(s) = payload.downcast_ref::<&str>() {
                    s.to_string()
                } else if let Some(s) = payload.downcast_ref::<String>() {
                    s.clone()
                } else {
                    "<non-string panic>".to_string()
                };
                PanicRec { msg, loc: String::new() }
            }))
        }
    }
}

/// Strips an absolute prefix up to and including "/repo/" style roots so locations are stable.
pub fn norm_loc(loc: &str) -> String {
    for marker in ["/plonky2/src/", "/starky/src/", "/field/src/", "/util/src/", "/maybe_rayon/src/"] {
        if let Some(i) = loc.find(marker) {
            return loc[i + 1..].to_string();
        }
    }
    if let Some(i) = loc.find("/registry/src/") {
        let rest = &loc[i + "/registry/src/".len()..];
        if let Some(j) = rest.find('/') {
            return rest[j + 1..].to_string();
        }
    }
    loc.to_string()
}

/// Message class: digits collapsed so that value-dependent text maps to one signature.
pub fn msg_class(msg: &str) -> String {
    let mut out = String::new();
    let mut prev_digit = false;
    for ch in msg.chars().take(160) {
        if ch.is_ascii_digit() {
            if !prev_digit {
                out.push('#');
            }
            prev_digit = true;
        } else {
            prev_digit = false;
            out.push(if ch == '\n' { ' ' } else { ch });
        }
    }
    out
}

// ---------------------------------------------------------------------------------------------
// Known findings

#[derive(Clone, Debug)]
pub struct Finding {
    pub property: String,
    pub status: String,
    pub signature: String,
    pub what: String,
}

pub fn load_findings() -> Vec<Finding> {
    let p = verif_dir().join("known_findings.jsonl");
    let mut out = vec![];
    if let Ok(s) = std::fs::read_to_string(p) {
        for line in s.lines() {
            let line = line.trim();
            if line.is_empty() || line.starts_with('#') {
                continue;
            }
            if let Ok(v) = serde_json::from_str::<Value>(line) {
                out.push(Finding {
                    property: v["property"].as_str().unwrap_or("").to_string(),
                    status: v["status"].as_str().unwrap_or("").to_string(),
                    signature: v["signature"].as_str().unwrap_or("").to_string(),
                    what: v["what"].as_str().unwrap_or("").to_string(),
                });
            }
        }
    }
    out
}

// ---------------------------------------------------------------------------------------------
// Run: evidence + verdict

pub struct Run {
    pub prop: &'static str,
    pub level: &'static str,
    pub tier: Tier,
    pub seed: u64,
    start: Instant,
    pub evaluations: u64,
    distinct: HashSet<u64>,
    distinct_bulk: u64,
    samples: Vec<Value>,
    max_samples: usize,
    counters: BTreeMap<String, u64>,
    extra: Map<String, Value>,
    rule: String,
    assumptions: Vec<String>,
    violations: Vec<(String, u64, Value)>,
    known_hits: BTreeMap<String, (String, u64)>,
    inconclusive: Vec<String>,
    findings: Vec<Finding>,
    /// When replaying, only this case index is executed by property code that honours it.
    pub only_case: Option<u64>,
}

impl Run {
    pub fn new(prop: &'static str, level: &'static str, tier: Tier) -> Self {
        let only_case = std::env::var("PV_ONLY_CASE").ok().and_then(|s| s.parse().ok());
        Run {
            prop,
            level,
            tier,
            seed: env_seed(),
            start: Instant::now(),
            evaluations: 0,
            distinct: HashSet::new(),
            distinct_bulk: 0,
            samples: vec![],
            max_samples: 6,
            counters: BTreeMap::new(),
            extra: Map::new(),
            rule: String::new(),
            assumptions: vec![],
            violations: vec![],
            known_hits: BTreeMap::new(),
            inconclusive: vec![],
            findings: load_findings(),
            only_case,
        }
    }

    pub fn quick(&self) -> bool {
        self.tier != Tier::Thorough
    }

    pub fn micro(&self) -> bool {
        self.tier == Tier::Micro
    }

    /// Count for the micro / quick / thorough tier.
    pub fn n(&self, m: u64, q: u64, t: u64) -> u64 {
        match self.tier {
            Tier::Micro => m,
            Tier::Quick => q,
            Tier::Thorough => t,
        }
    }

    /// `q` for the quick tier, `t` for thorough.
    pub fn pick<T>(&self, q: T, t: T) -> T {
        if self.quick() {
            q
        } else {
            t
        }
    }

    pub fn rng(&self, stream: u64, case: u64) -> ChaCha8Rng {
        case_rng(self.seed, stream, case)
    }

    pub fn skip_case(&self, case: u64) -> bool {
        matches!(self.only_case, Some(c) if c != case)
    }

    pub fn elapsed(&self) -> f64 {
        self.start.elapsed().as_secs_f64()
    }

    pub fn rule(&mut self, r: &str) {
        self.rule = r.to_string();
    }

    pub fn assume(&mut self, a: &str) {
        self.assumptions.push(a.to_string());
    }

    /// One oracle evaluation.
    pub fn eval(&mut self) {
        self.evaluations += 1;
    }

    pub fn evals(&mut self, n: u64) {
        self.evaluations += n;
    }

    /// Registers a non-trivial case by a key; distinct keys are counted.
    pub fn nontrivial<K: Hash>(&mut self, key: K) {
        let mut h = std::collections::hash_map::DefaultHasher::new();
        key.hash(&mut h);
        self.distinct.insert(h.finish());
    }

    /// Registers `n` cases that the workload itself established to be pairwise distinct and
    /// non-trivial (used by bulk workloads where hashing every case would dominate the run).
    pub fn nontrivial_bulk(&mut self, n: u64) {
        self.distinct_bulk += n;
    }

    pub fn distinct_count(&self) -> usize {
        self.distinct.len() + self.distinct_bulk as usize
    }

    pub fn sample(&mut self, v: Value) {
        if self.samples.len() < self.max_samples {
            self.samples.push(v);
        }
    }

    pub fn count(&mut self, key: &str, n: u64) {
        *self.counters.entry(key.to_string()).or_insert(0) += n;
    }

    pub fn counter(&self, key: &str) -> u64 {
        self.counters.get(key).copied().unwrap_or(0)
    }

    pub fn set_extra(&mut self, key: &str, v: Value) {
        self.extra.insert(key.to_string(), v);
    }

    pub fn inconclusive(&mut self, why: &str) {
        if self.inconclusive.len() < 50 {
            self.inconclusive.push(why.to_string());
        }
    }

    /// Reports a violation. `signature` identifies the failing input / call site exactly; if it
    /// is listed as `known` in known_findings.jsonl it is reported as KNOWN-FINDING instead.
    pub fn violation(&mut self, signature: &str, case: u64, detail: Value) {
        if let Some(f) = self
            .findings
            .iter()
            .find(|f| f.property == self.prop && f.status == "known" && f.signature == signature)
        {
            let e = self
                .known_hits
                .entry(signature.to_string())
                .or_insert((f.what.clone(), 0));
            e.1 += 1;
            return;
        }
        let cap = std::env::var("PV_MAX_VIOLATIONS").ok().and_then(|s| s.parse().ok()).unwrap_or(25usize);
        if self.violations.iter().any(|(s, _, _)| s == signature) || self.violations.len() >= cap {
            self.count("violation_repeats", 1);
            return;
        }
        self.violations.push((signature.to_string(), case, detail));
    }

    pub fn is_sub() -> bool {
        std::env::var("PV_SUB").map(|v| v == "1").unwrap_or(false)
    }

    pub fn variant_name() -> String {
        std::env::var("PV_VARIANT").unwrap_or_else(|_| "chk".to_string())
    }

    /// Runs the same property in every extra build variant listed in PV_VARIANTS (as supervised
    /// sub-processes) and merges what they observed into this run.
    pub fn run_variants(&mut self) {
        let spec = std::env::var("PV_VARIANTS").unwrap_or_default();
        let skipped = std::env::var("PV_VARIANTS_SKIPPED").unwrap_or_default();
        if !skipped.is_empty() {
            self.set_extra("variants_skipped_cpu_unsupported", json!(skipped));
        }
        let mut ran = vec![json!({"variant": "chk", "evaluations": self.evaluations})];
        for item in spec.split(',').filter(|s| !s.is_empty()) {
            let (name, path) = match item.split_once('=') {
                Some(x) => x,
                None => continue,
            };
            let tier = if self.quick() { "quick" } else { "thorough" };
            let out = std::process::Command::new(path)
                .args([self.prop, tier])
                .env("PV_SUB", "1")
                .env("PV_VARIANT", name)
                .env("PV_SELF", path)
                .env("PV_VARIANTS", "")
                .output();
            let out = match out {
                Ok(o) => o,
                Err(e) => {
                    self.inconclusive(&format!("variant {name}: cannot start: {e}"));
                    continue;
                }
            };
            let text = String::from_utf8_lossy(&out.stdout);
            let line = text.lines().find_map(|l| l.strip_prefix("SUBRESULT "));
            let v: Value = match line.and_then(|l| serde_json::from_str(l).ok()) {
                Some(v) => v,
                None => {
                    let err = String::from_utf8_lossy(&out.stderr);
                    let tail: String = err.chars().rev().take(400).collect::<String>().chars().rev().collect();
                    self.inconclusive(&format!("variant {name}: no result (status {:?}): {tail}", out.status.code()));
                    continue;
                }
            };
            let ev = v["evaluations"].as_u64().unwrap_or(0);
            self.evaluations += ev;
            // sub-runs replay the same seeded cases, so they add evaluations, not distinct cases
            if let Some(m) = v["counters"].as_object() {
                for (k, n) in m {
                    self.count(&format!("{name}.{k}"), n.as_u64().unwrap_or(0));
                }
            }
            if let Some(m) = v["extra"].as_object() {
                for (k, x) in m {
                    self.set_extra(&format!("{name}.{k}"), x.clone());
                }
            }
            for w in v["inconclusive"].as_array().cloned().unwrap_or_default() {
                self.inconclusive(&format!("variant {name}: {}", w.as_str().unwrap_or("")));
            }
            for viol in v["violations"].as_array().cloned().unwrap_or_default() {
                let sig = viol["signature"].as_str().unwrap_or("").to_string();
                let mut detail = viol["detail"].clone();
                if let Some(o) = detail.as_object_mut() {
                    o.insert("build_variant".into(), json!(name));
                }
                self.violation(&sig, viol["case"].as_u64().unwrap_or(0), detail);
            }
            for k in v["known_hits"].as_array().cloned().unwrap_or_default() {
                let sig = k["signature"].as_str().unwrap_or("").to_string();
                let e = self
                    .known_hits
                    .entry(sig)
                    .or_insert((k["what"].as_str().unwrap_or("").to_string(), 0));
                e.1 += k["times"].as_u64().unwrap_or(1);
            }
            ran.push(json!({"variant": name, "evaluations": ev}));
        }
        self.set_extra("build_variants_run", json!(ran));
    }

    /// `(index, count)` when this process is one shard of a sharded run.
    pub fn shard_spec() -> Option<(u64, u64)> {
        let s = std::env::var("PV_SHARD").ok()?;
        let (a, b) = s.split_once('/')?;
        Some((a.parse().ok()?, b.parse().ok()?))
    }

    /// True if `case` belongs to this process (always true when not sharded).
    pub fn in_shard(case: u64) -> bool {
        match Self::shard_spec() {
            Some((i, n)) => case % n == i,
            None => true,
        }
    }

    /// Runs the same property + tier in `n` worker processes (`PV_SHARD=i/n`, each with
    /// `threads` rayon threads) and merges what they observed. Used by workloads that set
    /// process-global prover knobs, which therefore handle one case at a time per process.
    pub fn run_shards(&mut self, n: u64, threads: usize, watchdog_s: u64) {
        self.run_shards_supervised(n, threads, watchdog_s, None)
    }

    /// File in which a supervised worker records what it is about to do.
    pub fn cur_file() -> Option<PathBuf> {
        let d = std::env::var("PV_CUR_DIR").ok()?;
        let (i, _) = Self::shard_spec()?;
        Some(PathBuf::from(d).join(format!("shard-{i}.cur")))
    }

    /// Records the case that is about to run (supervised workers only; cheap no-op otherwise).
    pub fn note_current(case: u64, signature: &str, detail: &Value) {
        if let Some(f) = Self::cur_file() {
            let _ = std::fs::write(f, serde_json::to_string(&json!({"case": case, "signature": signature, "detail": detail})).unwrap_or_default());
        }
    }

    /// Cases below this index are skipped (set when a worker is restarted after it died).
    pub fn skip_below() -> u64 {
        std::env::var("PV_SKIP_CASES_BELOW").ok().and_then(|s| s.parse().ok()).unwrap_or(0)
    }

    /// Like `run_shards`, but a worker that dies without a result (abort, stack overflow, allocation
    /// failure, kill by resource limit) is a VIOLATION candidate: the case it recorded with
    /// `note_current` is reported under `process_died.<signature>` and the worker is restarted behind
    /// that case. `cur_dir` = directory for the workers' progress files.
    pub fn run_shards_supervised(&mut self, n: u64, threads: usize, watchdog_s: u64, cur_dir: Option<PathBuf>) {
        if let Some(d) = &cur_dir {
            let _ = std::fs::create_dir_all(d);
        }
        let mut pending: Vec<(u64, u64, u32)> = (0..n).map(|i| (i, 0u64, 0u32)).collect(); // (shard, skip_below, restarts)
        let mut reported = 0u64;
        while !pending.is_empty() {
            let batch = std::mem::take(&mut pending);
            let died = self.run_shard_batch(n, threads, watchdog_s, cur_dir.as_ref(), &batch);
            for (i, skip, restarts, status) in died {
                let cur = cur_dir.as_ref().map(|d| d.join(format!("shard-{i}.cur")));
                let rec: Option<Value> = cur.as_ref().and_then(|f| std::fs::read_to_string(f).ok()).and_then(|s| serde_json::from_str(&s).ok());
                match rec {
                    Some(r) if cur_dir.is_some() && r["signature"].as_str() == Some("idle") => {
                        // died in the harness's own work (building / proving a subject), not inside a judged call
                        let case = r["case"].as_u64().unwrap_or(0);
                        self.inconclusive(&format!("shard {i}: worker died outside a judged call in case {case} ({status})"));
                        if restarts < 12 && case + 1 > skip {
                            pending.push((i, case + 1, restarts + 1));
                        }
                    }
                    Some(r) if cur_dir.is_some() => {
                        let case = r["case"].as_u64().unwrap_or(0);
                        let sig = r["signature"].as_str().unwrap_or("unknown").to_string();
                        self.violation(&format!("process_died.{sig}"), case, json!({"exit": status, "shard": i, "while_running": r["detail"]}));
                        self.count("worker_deaths_attributed", 1);
                        if restarts < 12 && case + 1 > skip {
                            pending.push((i, case + 1, restarts + 1));
                        } else {
                            self.inconclusive(&format!("shard {i}: restarted too often"));
                        }
                    }
                    _ => self.inconclusive(&format!("shard {i}: no result (status {status})")),
                }
            }
            reported += 1;
            if reported > 14 {
                break;
            }
        }
    }

    /// Spawns one worker per entry of `batch`; returns those that ended without a SUBRESULT.
    fn run_shard_batch(&mut self, n: u64, threads: usize, watchdog_s: u64, cur_dir: Option<&PathBuf>, batch: &[(u64, u64, u32)]) -> Vec<(u64, u64, u32, String)> {
        let mut died = vec![];
        // PV_SELF (set by the driver / by run_variants) survives a rebuild that replaces the file this
        // process was started from; current_exe() would then point at a deleted inode.
        let exe = match std::env::var("PV_SELF").ok().map(PathBuf::from).filter(|p| p.exists()).map(Ok).unwrap_or_else(std::env::current_exe) {
            Ok(e) => e,
            Err(e) => {
                self.inconclusive(&format!("cannot find own executable: {e}"));
                return died;
            }
        };
        let tier = if self.quick() { "quick" } else { "thorough" };
        let mut kids = vec![];
        for &(i, skip, restarts) in batch {
            let mut cmd = std::process::Command::new(&exe);
            if let Some(d) = cur_dir {
                cmd.env("PV_CUR_DIR", d);
                let _ = std::fs::remove_file(d.join(format!("shard-{i}.cur")));
            }
            let child = cmd
                .args([self.prop, tier])
                .env("PV_SUB", "1")
                .env("PV_SKIP_CASES_BELOW", skip.to_string())
                .env("PV_SHARD", format!("{i}/{n}"))
                .env("PV_VARIANTS", "")
                .env("RAYON_NUM_THREADS", threads.to_string())
                .stdout(std::process::Stdio::piped())
                .stderr(std::process::Stdio::piped())
                .spawn();
            match child {
                Ok(c) => kids.push((i, skip, restarts, c)),
                Err(e) => self.inconclusive(&format!("shard {i}: cannot start: {e}")),
            }
        }
        let deadline = Instant::now() + std::time::Duration::from_secs(watchdog_s);
        // reader threads so that a chatty child cannot block on a full pipe
        let mut handles = vec![];
        for (i, skip, restarts, mut c) in kids {
            let mut so = c.stdout.take().unwrap();
            let mut se = c.stderr.take().unwrap();
            let h_out = std::thread::spawn(move || {
                let mut s = String::new();
                let _ = std::io::Read::read_to_string(&mut so, &mut s);
                s
            });
            let h_err = std::thread::spawn(move || {
                let mut s = String::new();
                let _ = std::io::Read::read_to_string(&mut se, &mut s);
                s
            });
            handles.push((i, skip, restarts, c, h_out, h_err));
        }
        let mut shards_ok = 0u64;
        for (i, skip, restarts, mut c, h_out, h_err) in handles {
            let status = loop {
                match c.try_wait() {
                    Ok(Some(st)) => break Some(st),
                    Ok(None) => {
                        if Instant::now() > deadline {
                            let _ = c.kill();
                            let _ = c.wait();
                            break None;
                        }
                        std::thread::sleep(std::time::Duration::from_millis(50));
                    }
                    Err(_) => break None,
                }
            };
            let out = h_out.join().unwrap_or_default();
            let err = h_err.join().unwrap_or_default();
            if status.is_none() {
                self.inconclusive(&format!("shard {i}: watchdog ({watchdog_s}s) expired"));
                let _ = (skip, restarts);
                continue;
            }
            let line = out.lines().find_map(|l| l.strip_prefix("SUBRESULT "));
            let v: Value = match line.and_then(|l| serde_json::from_str(l).ok()) {
                Some(v) => v,
                None => {
                    let tail: String = err.chars().rev().take(300).collect::<String>().chars().rev().collect();
                    died.push((i, skip, restarts, format!("{:?} {tail}", status)));
                    continue;
                }
            };
            shards_ok += 1;
            self.merge_sub(None, &v);
        }
        let prev = self.extra.get("shards").and_then(|v| v["reported"].as_u64()).unwrap_or(0);
        self.set_extra("shards", json!({"requested": n, "reported": prev + shards_ok, "threads_each": threads}));
        died
    }

    /// Merges a worker's SUBRESULT. With `prefix` (build variants) counters are namespaced and the
    /// worker's cases are not counted as new distinct cases; without (shards) they are summed.
    fn merge_sub(&mut self, prefix: Option<&str>, v: &Value) {
        self.evaluations += v["evaluations"].as_u64().unwrap_or(0);
        if prefix.is_none() {
            self.distinct_bulk += v["distinct"].as_u64().unwrap_or(0);
            for s in v["samples"].as_array().cloned().unwrap_or_default() {
                self.sample(s);
            }
        }
        let name = |k: &str| match prefix {
            Some(p) => format!("{p}.{k}"),
            None => k.to_string(),
        };
        if let Some(m) = v["counters"].as_object() {
            for (k, n) in m {
                self.count(&name(k), n.as_u64().unwrap_or(0));
            }
        }
        if let Some(m) = v["extra"].as_object() {
            for (k, x) in m {
                if prefix.is_some() {
                    self.set_extra(&name(k), x.clone());
                } else if let (Some(old), Some(new)) = (self.extra.get(k).and_then(|o| o.as_object()).cloned(), x.as_object()) {
                    // maps of counts are summed key-wise
                    let mut merged = old;
                    for (kk, vv) in new {
                        let a = merged.get(kk).and_then(|z| z.as_u64()).unwrap_or(0);
                        merged.insert(kk.clone(), json!(a + vv.as_u64().unwrap_or(0)));
                    }
                    self.extra.insert(k.clone(), Value::Object(merged));
                } else if !self.extra.contains_key(k) {
                    self.extra.insert(k.clone(), x.clone());
                }
            }
        }
        for w in v["inconclusive"].as_array().cloned().unwrap_or_default() {
            let w = w.as_str().unwrap_or("").to_string();
            // a single worker sees only a slice of the cases; its "too few events" is not the run's
            if prefix.is_none() && w.starts_with("oracle observed too few events") {
                continue;
            }
            self.inconclusive(&match prefix {
                Some(p) => format!("variant {p}: {w}"),
                None => w,
            });
        }
        for viol in v["violations"].as_array().cloned().unwrap_or_default() {
            let sig = viol["signature"].as_str().unwrap_or("").to_string();
            let mut detail = viol["detail"].clone();
            if let (Some(p), Some(o)) = (prefix, detail.as_object_mut()) {
                o.insert("build_variant".into(), json!(p));
            }
            self.violation(&sig, viol["case"].as_u64().unwrap_or(0), detail);
        }
        for k in v["known_hits"].as_array().cloned().unwrap_or_default() {
            let sig = k["signature"].as_str().unwrap_or("").to_string();
            let e = self.known_hits.entry(sig).or_insert((k["what"].as_str().unwrap_or("").to_string(), 0));
            e.1 += k["times"].as_u64().unwrap_or(1);
        }
    }

    pub fn violation_count(&self) -> usize {
        self.violations.len()
    }

    /// Writes the evidence file, prints the verdict lines and exits.
    pub fn finish(mut self) -> ! {
        let wall = self.elapsed();
        if Self::is_sub() {
            let v = json!({
                "evaluations": self.evaluations,
                "distinct": self.distinct_count(),
                "samples": self.samples,
                "counters": self.counters,
                "extra": Value::Object(self.extra.clone()),
                "inconclusive": self.inconclusive,
                "violations": self.violations.iter().map(|(s, c, d)| json!({"signature": s, "case": c, "detail": d})).collect::<Vec<_>>(),
                "known_hits": self.known_hits.iter().map(|(s, (w, n))| json!({"signature": s, "what": w, "times": n})).collect::<Vec<_>>(),
            });
            println!("SUBRESULT {}", serde_json::to_string(&v).unwrap());
            std::process::exit(0);
        }
        let mut violation_files: Vec<(String, PathBuf)> = vec![];
        if !self.violations.is_empty() {
            let dir = verif_dir().join("replays");
            let _ = std::fs::create_dir_all(&dir);
            for (i, (sig, case, detail)) in self.violations.iter().enumerate() {
                let path = dir.join(format!("{}-s{}-{}.json", self.prop, self.seed, i));
                let body = json!({
                    "property": self.prop,
                    "seed": self.seed,
                    "tier": if self.quick() { "quick" } else { "thorough" },
                    "case": case,
                    "signature": sig,
                    "detail": detail,
                });
                let _ = std::fs::write(&path, serde_json::to_string_pretty(&body).unwrap());
                violation_files.push((sig.clone(), path));
            }
        }
        let mut coverage = Map::new();
        coverage.insert("evaluations".into(), json!(self.evaluations));
        coverage.insert("distinct_nontrivial".into(), json!(self.distinct_count()));
        coverage.insert("rule".into(), json!(self.rule));
        coverage.insert("samples".into(), Value::Array(self.samples.clone()));
        coverage.insert("counters".into(), json!(self.counters));
        for (k, v) in self.extra.iter() {
            coverage.insert(k.clone(), v.clone());
        }
        if self.evaluations == 0 || self.distinct_count() < 2 || self.samples.is_empty() {
            self.inconclusive
                .push("oracle observed too few events (evaluations/distinct/samples)".into());
        }
        let verdict = if !self.violations.is_empty() {
            "violated"
        } else if !self.inconclusive.is_empty() {
            "inconclusive"
        } else {
            "held_on_observed"
        };
        coverage.insert("verdict".into(), json!(verdict));
        coverage.insert("inconclusive_reasons".into(), json!(self.inconclusive));
        coverage.insert(
            "known_findings_hit".into(),
            json!(self
                .known_hits
                .iter()
                .map(|(s, (w, n))| json!({"signature": s, "what": w, "times": n}))
                .collect::<Vec<_>>()),
        );
        coverage.insert(
            "violation_signatures".into(),
            json!(self.violations.iter().map(|(s, _, _)| s.clone()).collect::<Vec<_>>()),
        );
        let ev = json!({
            "property_id": self.prop,
            "tier": if self.quick() { "quick" } else { "thorough" },
            "seed": self.seed as i64,
            "level": self.level,
            "coverage": Value::Object(coverage),
            "assumptions": self.assumptions,
            "wall_s": wall,
            "violations": self.violations.len(),
        });
        if self.only_case.is_none() {
            let dir = verif_dir().join("evidence");
            let _ = std::fs::create_dir_all(&dir);
            let path = dir.join(format!("{}.json", self.prop));
            std::fs::write(&path, serde_json::to_string_pretty(&ev).unwrap())
                .expect("cannot write evidence");
        }
        for (sig, (what, n)) in self.known_hits.iter() {
            println!("KNOWN-FINDING: property={} {} [signature={} times={}]", self.prop, what, sig, n);
        }
        println!(
            "{} {} seed={} evaluations={} distinct_nontrivial={} verdict={} wall={:.1}s",
            self.prop,
            if self.quick() { "quick" } else { "thorough" },
            self.seed,
            self.evaluations,
            self.distinct_count(),
            verdict,
            wall
        );
        for (k, v) in self.counters.iter() {
            println!("  {k} = {v}");
        }
        if !self.violations.is_empty() {
            for (sig, path) in violation_files.iter() {
                println!("  violation signature: {sig}");
                println!("VIOLATION property={} replay={}", self.prop, path.display());
            }
            std::process::exit(1);
        }
        if !self.inconclusive.is_empty() {
            for w in self.inconclusive.iter() {
                println!("INCONCLUSIVE property={} reason={}", self.prop, w);
            }
            std::process::exit(2);
        }
        std::process::exit(0);
    }
}
