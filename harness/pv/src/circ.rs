//! Seeded circuit programs: one straight-line op list is emitted into a `CircuitBuilder` and
//! evaluated by a direct interpreter over the reference field (refmodel) — the interpreter never
//! calls the crate's gadgets, gates or field arithmetic.

use std::sync::Arc;

use plonky2::field::goldilocks_field::GoldilocksField as F;
use plonky2::fri::reduction_strategies::FriReductionStrategy;
use plonky2::fri::FriConfig;
use plonky2::hash::poseidon::PoseidonHash;
use plonky2::iop::ext_target::ExtensionTarget;
use plonky2::iop::target::{BoolTarget, Target};
use plonky2::plonk::circuit_builder::CircuitBuilder;
use plonky2::plonk::circuit_data::{CircuitConfig, CircuitData};
use plonky2::plonk::config::GenericConfig;
use plonky2::util::reducing::ReducingFactorTarget;
use rand::Rng;
use serde_json::{json, Value};

use crate::gen;
use crate::poseidon_consts::{MDS_CIRC, MDS_DIAG, ROUND_CONSTANTS};
use crate::refmodel::*;

pub const D: usize = 2;
pub const W: u64 = 7; // X^2 - 7

pub type Reg = usize;

#[derive(Clone, Debug)]
pub enum Op {
    Input,
    Const(u64),
    Add(Reg, Reg),
    Sub(Reg, Reg),
    Mul(Reg, Reg),
    Neg(Reg),
    Square(Reg),
    Cube(Reg),
    MulAdd(Reg, Reg, Reg),
    MulSub(Reg, Reg, Reg),
    Arith(u64, u64, Reg, Reg, Reg),
    AddConst(Reg, u64),
    MulConst(u64, Reg),
    AddMany(Vec<Reg>),
    MulMany(Vec<Reg>),
    ExpU64(Reg, u64),
    ExpPow2(Reg, usize),
    /// exp(base, exponent, num_bits): exponent must fit num_bits.
    ExpBits(Reg, Reg, usize),
    ExpConstBase(u64, Vec<Reg>), // exp_from_bits_const_base over bool regs
    Inverse(Reg),
    Div(Reg, Reg),
    IsEqual(Reg, Reg),
    Select(Reg, Reg, Reg),
    Not(Reg),
    And(Reg, Reg),
    Or(Reg, Reg),
    /// split_le: produces `n` bool regs.
    SplitLe(Reg, usize),
    LeSum(Vec<Reg>),
    /// split_le_base::<B>: produces `n` limb regs.
    SplitBase(usize, Reg, usize),
    RangeCheck(Reg, usize),
    LowBits(Reg, usize, usize),
    SplitLowHigh(Reg, usize, usize),
    RandomAccess(Reg, Vec<Reg>),
    Connect(Reg, Reg),
    AssertZero(Reg),
    AssertOne(Reg),
    AssertBool(Reg),
    // extension ops on (r0, r1) pairs; each yields two regs
    ExtAdd([Reg; 2], [Reg; 2]),
    ExtSub([Reg; 2], [Reg; 2]),
    ExtMul([Reg; 2], [Reg; 2]),
    ExtDiv([Reg; 2], [Reg; 2]),
    ExtInverse([Reg; 2]),
    ExtSquare([Reg; 2]),
    ExtScalarMul(Reg, [Reg; 2]),
    ExtMulAdd([Reg; 2], [Reg; 2], [Reg; 2]),
    ExtArith(u64, u64, [Reg; 2], [Reg; 2], [Reg; 2]),
    ExtMulMany(Vec<[Reg; 2]>),
    ExtExpU64([Reg; 2], u64),
    ReduceExt([Reg; 2], Vec<[Reg; 2]>),
    ReduceBase([Reg; 2], Vec<Reg>),
    HashNoPad(Vec<Reg>),
    Permute(Vec<Reg>), // 12 regs -> 12 regs
    /// lookup of reg in table index -> output reg; precondition: value is an input of the table
    Lookup(Reg, usize),
    Public(Reg),
}

#[derive(Clone, Debug)]
pub struct Program {
    pub ops: Vec<Op>,
    pub tables: Vec<Vec<(u16, u16)>>,
    pub n_inputs: usize,
}

#[derive(Clone, Debug)]
pub struct EvalOut {
    /// value of every register (canonical)
    pub regs: Vec<u64>,
    /// register indices produced by each op (start index)
    pub op_first_reg: Vec<usize>,
    pub publics: Vec<u64>,
}

#[derive(Clone, Debug)]
pub struct Unsat {
    pub op_index: usize,
    pub why: String,
}

fn poseidon_ref() -> PoseidonRef {
    PoseidonRef { round_constants: ROUND_CONSTANTS.to_vec(), mds_circ: MDS_CIRC, mds_diag: MDS_DIAG }
}

fn ext_inv(a: &[u64]) -> Option<Vec<u64>> {
    // (a0 + a1 x)^-1 = (a0 - a1 x) / (a0^2 - W a1^2)
    let n = rsub(rmul(a[0], a[0]), rmul(W, rmul(a[1], a[1])));
    let ni = rinv(n)?;
    Some(vec![rmul(a[0], ni), rmul(rneg(a[1]), ni)])
}

impl Program {
    /// Direct evaluation. `Err` = the assignment derived from these inputs violates a precondition
    /// or an assertion of the program (so it belongs to the negative set).
    pub fn eval(&self, inputs: &[u64]) -> Result<EvalOut, Unsat> {
        let pr = poseidon_ref();
        let perm = |s: &[u64; 12]| pr.permute(s);
        let mut regs: Vec<u64> = vec![];
        let mut first = vec![];
        let mut publics = vec![];
        let mut next_input = 0usize;
        let un = |i: usize, why: &str| Unsat { op_index: i, why: why.to_string() };
        for (i, op) in self.ops.iter().enumerate() {
            first.push(regs.len());
            let r = |x: &Reg| regs[*x];
            let e = |x: &[Reg; 2]| vec![regs[x[0]], regs[x[1]]];
            let is_bool = |x: &Reg| regs[*x] <= 1;
            match op {
                Op::Input => {
                    regs.push(canon(inputs[next_input]));
                    next_input += 1;
                }
                Op::Const(c) => regs.push(canon(*c)),
                Op::Add(a, b) => regs.push(radd(r(a), r(b))),
                Op::Sub(a, b) => regs.push(rsub(r(a), r(b))),
                Op::Mul(a, b) => regs.push(rmul(r(a), r(b))),
                Op::Neg(a) => regs.push(rneg(r(a))),
                Op::Square(a) => regs.push(rmul(r(a), r(a))),
                Op::Cube(a) => regs.push(rmul(rmul(r(a), r(a)), r(a))),
                Op::MulAdd(a, b, c) => regs.push(radd(rmul(r(a), r(b)), r(c))),
                Op::MulSub(a, b, c) => regs.push(rsub(rmul(r(a), r(b)), r(c))),
                Op::Arith(c0, c1, x, y, z) => regs.push(radd(rmul(*c0, rmul(r(x), r(y))), rmul(*c1, r(z)))),
                Op::AddConst(a, c) => regs.push(radd(r(a), *c)),
                Op::MulConst(c, a) => regs.push(rmul(*c, r(a))),
                Op::AddMany(v) => regs.push(v.iter().fold(0, |acc, x| radd(acc, r(x)))),
                Op::MulMany(v) => regs.push(v.iter().fold(1, |acc, x| rmul(acc, r(x)))),
                Op::ExpU64(a, ex) => regs.push(rpow(r(a), *ex)),
                Op::ExpPow2(a, k) => {
                    let mut x = r(a);
                    for _ in 0..*k {
                        x = rmul(x, x);
                    }
                    regs.push(x)
                }
                Op::ExpBits(b, ex, nb) => {
                    let exv = r(ex);
                    if *nb < 64 && exv >> nb != 0 {
                        return Err(un(i, "exponent does not fit the declared bits"));
                    }
                    regs.push(rpow(r(b), exv))
                }
                Op::ExpConstBase(base, bits) => {
                    let mut ex = 0u64;
                    for (k, b) in bits.iter().enumerate() {
                        if !is_bool(b) {
                            return Err(un(i, "non-boolean exponent bit"));
                        }
                        ex |= r(b) << k;
                    }
                    regs.push(rpow(*base, ex))
                }
                Op::Inverse(a) => match rinv(r(a)) {
                    Some(v) => regs.push(v),
                    None => return Err(un(i, "inverse of zero")),
                },
                Op::Div(a, b) => match rinv(r(b)) {
                    Some(v) => regs.push(rmul(r(a), v)),
                    None => return Err(un(i, "division by zero")),
                },
                Op::IsEqual(a, b) => regs.push((r(a) == r(b)) as u64),
                Op::Select(b, x, y) => {
                    if !is_bool(b) {
                        return Err(un(i, "select on non-boolean"));
                    }
                    regs.push(if r(b) == 1 { r(x) } else { r(y) })
                }
                Op::Not(b) => {
                    if !is_bool(b) {
                        return Err(un(i, "not on non-boolean"));
                    }
                    regs.push(1 - r(b))
                }
                Op::And(a, b) => {
                    if !is_bool(a) || !is_bool(b) {
                        return Err(un(i, "and on non-boolean"));
                    }
                    regs.push(r(a) & r(b))
                }
                Op::Or(a, b) => {
                    if !is_bool(a) || !is_bool(b) {
                        return Err(un(i, "or on non-boolean"));
                    }
                    regs.push(r(a) | r(b))
                }
                Op::SplitLe(a, n) => {
                    let v = r(a);
                    if *n < 64 && v >> n != 0 {
                        return Err(un(i, "value does not fit split_le bits"));
                    }
                    for k in 0..*n {
                        regs.push((v >> k) & 1);
                    }
                }
                Op::LeSum(bits) => {
                    let mut v = 0u64;
                    for (k, b) in bits.iter().enumerate() {
                        if !is_bool(b) {
                            return Err(un(i, "le_sum over non-boolean"));
                        }
                        v = radd(v, rmul(r(b), rpow(2, k as u64)));
                    }
                    regs.push(v)
                }
                Op::SplitBase(b, a, n) => {
                    let mut v = r(a) as u128;
                    let bb = *b as u128;
                    let mut limbs = vec![];
                    for _ in 0..*n {
                        limbs.push((v % bb) as u64);
                        v /= bb;
                    }
                    if v != 0 {
                        return Err(un(i, "value does not fit base-B limbs"));
                    }
                    regs.extend(limbs);
                }
                Op::RangeCheck(a, n) => {
                    if *n < 64 && r(a) >> n != 0 {
                        return Err(un(i, "range check violated"));
                    }
                }
                Op::LowBits(a, low, n) => {
                    let v = r(a);
                    if *n < 64 && v >> n != 0 {
                        return Err(un(i, "value does not fit low_bits num_bits"));
                    }
                    for k in 0..*low {
                        regs.push((v >> k) & 1);
                    }
                }
                Op::SplitLowHigh(a, nlog, nbits) => {
                    let v = r(a);
                    if *nbits < 64 && v >> nbits != 0 {
                        return Err(un(i, "value does not fit split_low_high num_bits"));
                    }
                    regs.push(v & ((1u64 << nlog) - 1));
                    regs.push(v >> nlog);
                }
                Op::RandomAccess(idx, v) => {
                    let padded = v.len().next_power_of_two();
                    let k = r(idx);
                    if padded == 1 {
                        // a one-element list is returned as is; the index is not constrained
                        regs.push(r(&v[0]));
                    } else {
                        if k >= padded as u64 {
                            return Err(un(i, "random access index out of range"));
                        }
                        let k = k as usize;
                        regs.push(if k < v.len() { r(&v[k]) } else { r(v.last().unwrap()) })
                    }
                }
                Op::Connect(a, b) => {
                    if r(a) != r(b) {
                        return Err(un(i, "connected values differ"));
                    }
                }
                Op::AssertZero(a) => {
                    if r(a) != 0 {
                        return Err(un(i, "assert_zero violated"));
                    }
                }
                Op::AssertOne(a) => {
                    if r(a) != 1 {
                        return Err(un(i, "assert_one violated"));
                    }
                }
                Op::AssertBool(a) => {
                    if !is_bool(a) {
                        return Err(un(i, "assert_bool violated"));
                    }
                }
                Op::ExtAdd(a, b) => regs.extend(ext_add(&e(a), &e(b))),
                Op::ExtSub(a, b) => regs.extend(ext_sub(&e(a), &e(b))),
                Op::ExtMul(a, b) => regs.extend(ext_mul(&e(a), &e(b), W)),
                Op::ExtSquare(a) => regs.extend(ext_mul(&e(a), &e(a), W)),
                Op::ExtDiv(a, b) => match ext_inv(&e(b)) {
                    Some(bi) => regs.extend(ext_mul(&e(a), &bi, W)),
                    None => return Err(un(i, "extension division by zero")),
                },
                Op::ExtInverse(a) => match ext_inv(&e(a)) {
                    Some(ai) => regs.extend(ai),
                    None => return Err(un(i, "extension inverse of zero")),
                },
                Op::ExtScalarMul(s, a) => regs.extend(e(a).iter().map(|&x| rmul(x, r(s))).collect::<Vec<_>>()),
                Op::ExtMulAdd(a, b, c) => regs.extend(ext_add(&ext_mul(&e(a), &e(b), W), &e(c))),
                Op::ExtArith(c0, c1, a, b, c) => {
                    let p: Vec<u64> = ext_mul(&e(a), &e(b), W).iter().map(|&x| rmul(x, *c0)).collect();
                    let q: Vec<u64> = e(c).iter().map(|&x| rmul(x, *c1)).collect();
                    regs.extend(ext_add(&p, &q))
                }
                Op::ExtMulMany(v) => {
                    let mut acc = ext_one(2);
                    for x in v {
                        acc = ext_mul(&acc, &e(x), W);
                    }
                    regs.extend(acc)
                }
                Op::ExtExpU64(a, ex) => regs.extend(ext_pow_limbs(&e(a), &[*ex], W)),
                Op::ReduceExt(alpha, terms) => {
                    let mut acc = vec![0u64, 0];
                    for t in terms.iter().rev() {
                        acc = ext_add(&ext_mul(&acc, &e(alpha), W), &e(t));
                    }
                    regs.extend(acc)
                }
                Op::ReduceBase(alpha, terms) => {
                    let mut acc = vec![0u64, 0];
                    for t in terms.iter().rev() {
                        acc = ext_add(&ext_mul(&acc, &e(alpha), W), &[r(t), 0]);
                    }
                    regs.extend(acc)
                }
                Op::HashNoPad(v) => {
                    let xs: Vec<u64> = v.iter().map(r).collect();
                    regs.extend(sponge_hash_no_pad(&perm, &xs, 4))
                }
                Op::Permute(v) => {
                    let mut s = [0u64; 12];
                    for k in 0..12 {
                        s[k] = r(&v[k]);
                    }
                    regs.extend(perm(&s))
                }
                Op::Lookup(a, t) => {
                    let v = r(a);
                    match self.tables[*t].iter().find(|(inp, _)| *inp as u64 == v) {
                        Some((_, out)) => regs.push(*out as u64),
                        None => return Err(un(i, "looked-up value is not a table input")),
                    }
                }
                Op::Public(a) => publics.push(r(a)),
            }
        }
        Ok(EvalOut { regs, op_first_reg: first, publics })
    }

    pub fn describe(&self) -> Value {
        let mut kinds: Vec<String> = self.ops.iter().map(op_kind).map(|s| s.to_string()).collect();
        kinds.dedup();
        json!({"ops": self.ops.len(), "inputs": self.n_inputs, "tables": self.tables.iter().map(|t| t.len()).collect::<Vec<_>>(), "op_kinds_in_order": kinds.iter().take(40).collect::<Vec<_>>()})
    }
}

pub fn op_kind(op: &Op) -> &'static str {
    match op {
        Op::Input => "input",
        Op::Const(_) => "const",
        Op::Add(..) => "add",
        Op::Sub(..) => "sub",
        Op::Mul(..) => "mul",
        Op::Neg(..) => "neg",
        Op::Square(..) => "square",
        Op::Cube(..) => "cube",
        Op::MulAdd(..) => "mul_add",
        Op::MulSub(..) => "mul_sub",
        Op::Arith(..) => "arithmetic",
        Op::AddConst(..) => "add_const",
        Op::MulConst(..) => "mul_const",
        Op::AddMany(..) => "add_many",
        Op::MulMany(..) => "mul_many",
        Op::ExpU64(..) => "exp_u64",
        Op::ExpPow2(..) => "exp_power_of_2",
        Op::ExpBits(..) => "exp",
        Op::ExpConstBase(..) => "exp_from_bits_const_base",
        Op::Inverse(..) => "inverse",
        Op::Div(..) => "div",
        Op::IsEqual(..) => "is_equal",
        Op::Select(..) => "select",
        Op::Not(..) => "not",
        Op::And(..) => "and",
        Op::Or(..) => "or",
        Op::SplitLe(..) => "split_le",
        Op::LeSum(..) => "le_sum",
        Op::SplitBase(..) => "split_le_base",
        Op::RangeCheck(..) => "range_check",
        Op::LowBits(..) => "low_bits",
        Op::SplitLowHigh(..) => "split_low_high",
        Op::RandomAccess(..) => "random_access",
        Op::Connect(..) => "connect",
        Op::AssertZero(..) => "assert_zero",
        Op::AssertOne(..) => "assert_one",
        Op::AssertBool(..) => "assert_bool",
        Op::ExtAdd(..) => "add_extension",
        Op::ExtSub(..) => "sub_extension",
        Op::ExtMul(..) => "mul_extension",
        Op::ExtDiv(..) => "div_extension",
        Op::ExtInverse(..) => "inverse_extension",
        Op::ExtSquare(..) => "square_extension",
        Op::ExtScalarMul(..) => "scalar_mul_ext",
        Op::ExtMulAdd(..) => "mul_add_extension",
        Op::ExtArith(..) => "arithmetic_extension",
        Op::ExtMulMany(..) => "mul_many_extension",
        Op::ExtExpU64(..) => "exp_u64_extension",
        Op::ReduceExt(..) => "reduce_ext",
        Op::ReduceBase(..) => "reduce_base",
        Op::HashNoPad(..) => "hash_n_to_hash_no_pad",
        Op::Permute(..) => "permute",
        Op::Lookup(..) => "lookup",
        Op::Public(..) => "public_input",
    }
}

// ---- generation --------------------------------------------------------------------------------

#[derive(Clone, Debug, Default)]
pub struct GenOpts {
    pub n_ops: usize,
    pub lookups: bool,
    pub hashing: bool,
    pub extension: bool,
    pub max_table_len: usize,
    /// restrict base decompositions to base 2 (the only base in the default gate/generator registries)
    pub only_base2: bool,
}

/// Generates a program together with a designated satisfying input; generation is guided by the
/// interpreter's running values so that every precondition holds on the designated input.
pub fn gen_program<R: Rng>(rng: &mut R, bset: &[u64], o: &GenOpts) -> (Program, Vec<u64>) {
    let mut p = Program { ops: vec![], tables: vec![], n_inputs: 0 };
    let mut inputs: Vec<u64> = vec![];
    let mut vals: Vec<u64> = vec![]; // running register values
    let mut bools: Vec<Reg> = vec![];
    let pr = poseidon_ref();

    // tables first
    if o.lookups {
        let nt = rng.gen_range(1..=3);
        for _ in 0..nt {
            let len = match rng.gen_range(0..6) {
                0 => 1,
                1 => rng.gen_range(2..8),
                2 => 26, // == slots for 80 routed wires (LUT gate: 80/3)
                3 => 27,
                4 => 40,
                _ => rng.gen_range(8..o.max_table_len.max(9)),
            };
            let mut ins: Vec<u16> = vec![];
            while ins.len() < len {
                let x: u16 = match rng.gen_range(0..4) {
                    0 => rng.gen_range(0..4),
                    1 => u16::MAX - rng.gen_range(0..4),
                    _ => rng.gen(),
                };
                if !ins.contains(&x) {
                    ins.push(x);
                }
            }
            let outs_small = rng.gen_bool(0.5);
            let t: Vec<(u16, u16)> = ins.iter().map(|&i| (i, if outs_small { rng.gen_range(0..3) } else { rng.gen() })).collect();
            p.tables.push(t);
        }
    }

    macro_rules! push {
        ($op:expr, $($v:expr),*) => {{
            p.ops.push($op);
            let first = vals.len();
            $( vals.push($v); )*
            first
        }};
    }
    // a few inputs and constants to start with
    let n_in = rng.gen_range(2..7);
    for _ in 0..n_in {
        let v = gen::canon_u64(rng, bset);
        inputs.push(v);
        push!(Op::Input, v);
    }
    for c in [0u64, 1, 2, P - 1] {
        push!(Op::Const(c), c);
    }
    bools.push(n_in); // const 0
    bools.push(n_in + 1); // const 1
    p.n_inputs = n_in;

    let mut guard = 0;
    while p.ops.len() < o.n_ops && guard < o.n_ops * 20 {
        guard += 1;
        let n = vals.len();
        let pick = |rng: &mut R| rng.gen_range(0..n);
        let pick_recent = |rng: &mut R| if rng.gen_bool(0.6) { n - 1 - rng.gen_range(0..n.min(8)) } else { rng.gen_range(0..n) };
        let choice = rng.gen_range(0..100);
        match choice {
            0..=5 => {
                let (a, b) = (pick_recent(rng), pick(rng));
                push!(Op::Add(a, b), radd(vals[a], vals[b]));
            }
            6..=9 => {
                let (a, b) = (pick_recent(rng), pick(rng));
                push!(Op::Sub(a, b), rsub(vals[a], vals[b]));
            }
            10..=15 => {
                let (a, b) = (pick_recent(rng), pick(rng));
                push!(Op::Mul(a, b), rmul(vals[a], vals[b]));
            }
            16 => {
                let a = pick(rng);
                push!(Op::Neg(a), rneg(vals[a]));
            }
            17 => {
                let a = pick(rng);
                if rng.gen_bool(0.5) {
                    push!(Op::Square(a), rmul(vals[a], vals[a]));
                } else {
                    push!(Op::Cube(a), rmul(rmul(vals[a], vals[a]), vals[a]));
                }
            }
            18..=20 => {
                let (a, b, c) = (pick_recent(rng), pick(rng), pick(rng));
                if rng.gen_bool(0.5) {
                    push!(Op::MulAdd(a, b, c), radd(rmul(vals[a], vals[b]), vals[c]));
                } else {
                    push!(Op::MulSub(a, b, c), rsub(rmul(vals[a], vals[b]), vals[c]));
                }
            }
            21..=23 => {
                let (x, y, z) = (pick_recent(rng), pick(rng), pick(rng));
                let (c0, c1) = (gen::canon_u64(rng, bset), gen::canon_u64(rng, bset));
                push!(Op::Arith(c0, c1, x, y, z), radd(rmul(c0, rmul(vals[x], vals[y])), rmul(c1, vals[z])));
            }
            24 => {
                let a = pick(rng);
                let c = gen::canon_u64(rng, bset);
                if rng.gen_bool(0.5) {
                    push!(Op::AddConst(a, c), radd(vals[a], c));
                } else {
                    push!(Op::MulConst(c, a), rmul(c, vals[a]));
                }
            }
            25 => {
                let k = rng.gen_range(0..6);
                let v: Vec<Reg> = (0..k).map(|_| pick(rng)).collect();
                if rng.gen_bool(0.5) {
                    let s = v.iter().fold(0, |acc, &x| radd(acc, vals[x]));
                    push!(Op::AddMany(v), s);
                } else {
                    let s = v.iter().fold(1, |acc, &x| rmul(acc, vals[x]));
                    push!(Op::MulMany(v), s);
                }
            }
            26..=27 => {
                let a = pick(rng);
                let e = match rng.gen_range(0..4) {
                    0 => rng.gen_range(0..4),
                    1 => u64::MAX - rng.gen_range(0..3u64),
                    2 => 1u64 << rng.gen_range(0..64),
                    _ => rng.gen(),
                };
                push!(Op::ExpU64(a, e), rpow(vals[a], e));
            }
            28 => {
                let a = pick(rng);
                let k = rng.gen_range(0..8);
                let mut x = vals[a];
                for _ in 0..k {
                    x = rmul(x, x);
                }
                push!(Op::ExpPow2(a, k), x);
            }
            29..=30 => {
                // exp(base, exponent, num_bits) with a small exponent register
                let nb = rng.gen_range(1..10usize);
                let ev = rng.gen_range(0..1u64 << nb);
                let er = push!(Op::Const(ev), ev);
                let b = pick(rng);
                push!(Op::ExpBits(b, er, nb), rpow(vals[b], ev));
            }
            31 => {
                if bools.len() >= 2 {
                    let k = rng.gen_range(1..8usize);
                    let bits: Vec<Reg> = (0..k).map(|_| bools[rng.gen_range(0..bools.len())]).collect();
                    let base = gen::canon_u64(rng, bset);
                    let mut ex = 0u64;
                    for (j, b) in bits.iter().enumerate() {
                        ex |= vals[*b] << j;
                    }
                    push!(Op::ExpConstBase(base, bits), rpow(base, ex));
                }
            }
            32..=33 => {
                let a = pick(rng);
                if vals[a] != 0 {
                    push!(Op::Inverse(a), rinv(vals[a]).unwrap());
                }
            }
            34..=35 => {
                let (a, b) = (pick(rng), pick(rng));
                if vals[b] != 0 {
                    push!(Op::Div(a, b), rmul(vals[a], rinv(vals[b]).unwrap()));
                }
            }
            36..=38 => {
                let a = pick(rng);
                let b = if rng.gen_bool(0.4) { a } else { pick(rng) };
                let r = push!(Op::IsEqual(a, b), (vals[a] == vals[b]) as u64);
                bools.push(r);
            }
            39..=41 => {
                let b = bools[rng.gen_range(0..bools.len())];
                let (x, y) = (pick(rng), pick(rng));
                push!(Op::Select(b, x, y), if vals[b] == 1 { vals[x] } else { vals[y] });
            }
            42 => {
                let b = bools[rng.gen_range(0..bools.len())];
                let r = push!(Op::Not(b), 1 - vals[b]);
                bools.push(r);
            }
            43 => {
                let (a, b) = (bools[rng.gen_range(0..bools.len())], bools[rng.gen_range(0..bools.len())]);
                let r = if rng.gen_bool(0.5) { push!(Op::And(a, b), vals[a] & vals[b]) } else { push!(Op::Or(a, b), vals[a] | vals[b]) };
                bools.push(r);
            }
            44..=48 => {
                // split_le of a value that fits (fresh small constant/input-derived or any reg with 64 bits)
                let a = pick(rng);
                let v = vals[a];
                let need = (64 - v.leading_zeros()) as usize;
                let nb = match rng.gen_range(0..4) {
                    0 => need.max(1),
                    1 => (need + rng.gen_range(0..4)).clamp(1, 64),
                    2 => 64,
                    _ => (need + 1).clamp(1, 64),
                };
                if nb <= 64 && (nb == 64 || v >> nb == 0) {
                    p.ops.push(Op::SplitLe(a, nb));
                    let first = vals.len();
                    for k in 0..nb {
                        vals.push((v >> k) & 1);
                        bools.push(first + k);
                    }
                }
            }
            49..=50 => {
                let k = rng.gen_range(0..40usize).min(bools.len());
                let bits: Vec<Reg> = (0..k).map(|_| bools[rng.gen_range(0..bools.len())]).collect();
                let mut v = 0u64;
                for (j, b) in bits.iter().enumerate() {
                    v = radd(v, rmul(vals[*b], rpow(2, j as u64)));
                }
                push!(Op::LeSum(bits), v);
            }
            51..=53 => {
                let a = pick(rng);
                let b = if o.only_base2 { 2usize } else { [2usize, 3, 4][rng.gen_range(0..3)] };
                let mut need = 0usize;
                let mut t = vals[a] as u128;
                while t > 0 {
                    t /= b as u128;
                    need += 1;
                }
                let nl = (need + rng.gen_range(0..3)).max(1);
                if nl <= 30 {
                    p.ops.push(Op::SplitBase(b, a, nl));
                    let mut t = vals[a] as u128;
                    for _ in 0..nl {
                        vals.push((t % b as u128) as u64);
                        t /= b as u128;
                    }
                }
            }
            54..=55 => {
                let a = pick(rng);
                let need = (64 - vals[a].leading_zeros()) as usize;
                let nb = (need + rng.gen_range(0..3)).clamp(1, 64);
                p.ops.push(Op::RangeCheck(a, nb));
            }
            56 => {
                let a = pick(rng);
                let need = (64 - vals[a].leading_zeros()) as usize;
                let nb = (need + rng.gen_range(0..3)).clamp(2, 64);
                let low = rng.gen_range(1..=nb.min(8));
                p.ops.push(Op::LowBits(a, low, nb));
                let first = vals.len();
                for k in 0..low {
                    vals.push((vals[a] >> k) & 1);
                    bools.push(first + k);
                }
            }
            57 => {
                let a = pick(rng);
                let need = (64 - vals[a].leading_zeros()) as usize;
                let nb = (need + rng.gen_range(0..3)).clamp(2, 63);
                if vals[a] >> nb == 0 {
                    let nlog = rng.gen_range(1..nb);
                    p.ops.push(Op::SplitLowHigh(a, nlog, nb));
                    let v = vals[a];
                    vals.push(v & ((1u64 << nlog) - 1));
                    vals.push(v >> nlog);
                }
            }
            58..=61 => {
                let len = [1usize, 2, 3, 4, 5, 8, 16, 32][rng.gen_range(0..8)];
                let padded = len.next_power_of_two();
                let idx_v = rng.gen_range(0..padded as u64);
                let idx = push!(Op::Const(idx_v), idx_v);
                let v: Vec<Reg> = (0..len).map(|_| pick(rng)).collect();
                let k = idx_v as usize;
                let out = if k < len { vals[v[k]] } else { vals[*v.last().unwrap()] };
                push!(Op::RandomAccess(idx, v), out);
            }
            62..=63 => {
                // connect two registers that are equal by construction
                let (a, b) = (pick(rng), pick(rng));
                let x = push!(Op::Add(a, b), radd(vals[a], vals[b]));
                let y = push!(Op::Add(b, a), radd(vals[b], vals[a]));
                p.ops.push(Op::Connect(x, y));
            }
            64 => {
                let a = pick(rng);
                let z = push!(Op::Sub(a, a), 0);
                p.ops.push(Op::AssertZero(z));
            }
            65 => {
                let a = pick(rng);
                if vals[a] != 0 {
                    let inv = push!(Op::Inverse(a), rinv(vals[a]).unwrap());
                    let one = push!(Op::Mul(a, inv), 1);
                    p.ops.push(Op::AssertOne(one));
                }
            }
            66 => {
                let b = bools[rng.gen_range(0..bools.len())];
                p.ops.push(Op::AssertBool(b));
            }
            67..=80 if o.extension => {
                let pe = |rng: &mut R| [rng.gen_range(0..n), rng.gen_range(0..n)];
                let ev = |x: &[Reg; 2], vals: &Vec<u64>| vec![vals[x[0]], vals[x[1]]];
                let (a, b, c) = (pe(rng), pe(rng), pe(rng));
                match choice {
                    67 => {
                        let r = ext_add(&ev(&a, &vals), &ev(&b, &vals));
                        push!(Op::ExtAdd(a, b), r[0], r[1]);
                    }
                    68 => {
                        let r = ext_sub(&ev(&a, &vals), &ev(&b, &vals));
                        push!(Op::ExtSub(a, b), r[0], r[1]);
                    }
                    69..=71 => {
                        let r = ext_mul(&ev(&a, &vals), &ev(&b, &vals), W);
                        push!(Op::ExtMul(a, b), r[0], r[1]);
                    }
                    72 => {
                        if let Some(bi) = ext_inv(&ev(&b, &vals)) {
                            let r = ext_mul(&ev(&a, &vals), &bi, W);
                            push!(Op::ExtDiv(a, b), r[0], r[1]);
                        }
                    }
                    73 => {
                        if let Some(ai) = ext_inv(&ev(&a, &vals)) {
                            push!(Op::ExtInverse(a), ai[0], ai[1]);
                        }
                    }
                    74 => {
                        let r = ext_mul(&ev(&a, &vals), &ev(&a, &vals), W);
                        push!(Op::ExtSquare(a), r[0], r[1]);
                    }
                    75 => {
                        let s = pick(rng);
                        let r: Vec<u64> = ev(&a, &vals).iter().map(|&x| rmul(x, vals[s])).collect();
                        push!(Op::ExtScalarMul(s, a), r[0], r[1]);
                    }
                    76 => {
                        let r = ext_add(&ext_mul(&ev(&a, &vals), &ev(&b, &vals), W), &ev(&c, &vals));
                        push!(Op::ExtMulAdd(a, b, c), r[0], r[1]);
                    }
                    77 => {
                        let (c0, c1) = (gen::canon_u64(rng, bset), gen::canon_u64(rng, bset));
                        let pp: Vec<u64> = ext_mul(&ev(&a, &vals), &ev(&b, &vals), W).iter().map(|&x| rmul(x, c0)).collect();
                        let q: Vec<u64> = ev(&c, &vals).iter().map(|&x| rmul(x, c1)).collect();
                        let r = ext_add(&pp, &q);
                        push!(Op::ExtArith(c0, c1, a, b, c), r[0], r[1]);
                    }
                    78 => {
                        let k = rng.gen_range(0..5);
                        let v: Vec<[Reg; 2]> = (0..k).map(|_| pe(rng)).collect();
                        let mut acc = ext_one(2);
                        for x in &v {
                            acc = ext_mul(&acc, &ev(x, &vals), W);
                        }
                        push!(Op::ExtMulMany(v), acc[0], acc[1]);
                    }
                    79 => {
                        let e: u64 = if rng.gen_bool(0.5) { rng.gen_range(0..20) } else { rng.gen() };
                        let r = ext_pow_limbs(&ev(&a, &vals), &[e], W);
                        push!(Op::ExtExpU64(a, e), r[0], r[1]);
                    }
                    _ => {
                        let k = [0usize, 1, 2, 5, 17, 40, 70][rng.gen_range(0..7)];
                        if rng.gen_bool(0.5) {
                            let terms: Vec<[Reg; 2]> = (0..k.min(40)).map(|_| pe(rng)).collect();
                            let mut acc = vec![0u64, 0];
                            for t in terms.iter().rev() {
                                acc = ext_add(&ext_mul(&acc, &ev(&a, &vals), W), &ev(t, &vals));
                            }
                            push!(Op::ReduceExt(a, terms), acc[0], acc[1]);
                        } else {
                            let terms: Vec<Reg> = (0..k).map(|_| pick(rng)).collect();
                            let mut acc = vec![0u64, 0];
                            for t in terms.iter().rev() {
                                acc = ext_add(&ext_mul(&acc, &ev(&a, &vals), W), &[vals[*t], 0]);
                            }
                            push!(Op::ReduceBase(a, terms), acc[0], acc[1]);
                        }
                    }
                }
            }
            81..=84 if o.hashing => {
                if rng.gen_bool(0.7) {
                    let k = [0usize, 1, 4, 7, 8, 9, 12, 16, 17][rng.gen_range(0..9)];
                    let v: Vec<Reg> = (0..k).map(|_| pick(rng)).collect();
                    let xs: Vec<u64> = v.iter().map(|&x| vals[x]).collect();
                    let h = sponge_hash_no_pad(&|s| pr.permute(s), &xs, 4);
                    push!(Op::HashNoPad(v), h[0], h[1], h[2], h[3]);
                } else {
                    let v: Vec<Reg> = (0..12).map(|_| pick(rng)).collect();
                    let mut s = [0u64; 12];
                    for k in 0..12 {
                        s[k] = vals[v[k]];
                    }
                    let out = pr.permute(&s);
                    p.ops.push(Op::Permute(v));
                    vals.extend(out);
                }
            }
            85..=92 if o.lookups && !p.tables.is_empty() => {
                let t = rng.gen_range(0..p.tables.len());
                let reps = rng.gen_range(1..4);
                for _ in 0..reps {
                    let (inp, out) = p.tables[t][rng.gen_range(0..p.tables[t].len())];
                    let c = push!(Op::Const(inp as u64), inp as u64);
                    push!(Op::Lookup(c, t), out as u64);
                }
            }
            93..=99 => {
                let a = pick_recent(rng);
                p.ops.push(Op::Public(a));
            }
            _ => {}
        }
    }
    // every declared table must be used at least once (the builder refuses unused tables)
    for t in 0..p.tables.len() {
        if !p.ops.iter().any(|op| matches!(op, Op::Lookup(_, tt) if *tt == t)) {
            let (inp, out) = p.tables[t][rng.gen_range(0..p.tables[t].len())];
            let c = push!(Op::Const(inp as u64), inp as u64);
            push!(Op::Lookup(c, t), out as u64);
        }
    }
    // make sure at least a couple of results are exposed
    for _ in 0..2 {
        let a = vals.len() - 1 - rng.gen_range(0..vals.len().min(6));
        p.ops.push(Op::Public(a));
    }
    (p, inputs)
}

// ---- emission into a CircuitBuilder ------------------------------------------------------------

pub struct Built<C: GenericConfig<D, F = F>> {
    pub data: CircuitData<F, C, D>,
    pub input_targets: Vec<Target>,
    /// target of every register, in register order
    pub reg_targets: Vec<Target>,
}

pub fn emit(p: &Program, builder: &mut CircuitBuilder<F, D>) -> (Vec<Target>, Vec<Target>) {
    let mut t: Vec<Target> = vec![];
    let mut input_targets = vec![];
    let lut_ids: Vec<usize> = p.tables.iter().map(|tb| builder.add_lookup_table_from_pairs(Arc::new(tb.clone()))).collect();
    for op in &p.ops {
        let bt = |x: &Reg, t: &Vec<Target>| BoolTarget::new_unsafe(t[*x]);
        let et = |x: &[Reg; 2], t: &Vec<Target>| ExtensionTarget([t[x[0]], t[x[1]]]);
        match op {
            Op::Input => {
                let x = builder.add_virtual_target();
                input_targets.push(x);
                t.push(x);
            }
            Op::Const(c) => t.push(builder.constant(F(*c))),
            Op::Add(a, b) => t.push(builder.add(t[*a], t[*b])),
            Op::Sub(a, b) => t.push(builder.sub(t[*a], t[*b])),
            Op::Mul(a, b) => t.push(builder.mul(t[*a], t[*b])),
            Op::Neg(a) => t.push(builder.neg(t[*a])),
            Op::Square(a) => t.push(builder.square(t[*a])),
            Op::Cube(a) => t.push(builder.cube(t[*a])),
            Op::MulAdd(a, b, c) => t.push(builder.mul_add(t[*a], t[*b], t[*c])),
            Op::MulSub(a, b, c) => t.push(builder.mul_sub(t[*a], t[*b], t[*c])),
            Op::Arith(c0, c1, x, y, z) => t.push(builder.arithmetic(F(*c0), F(*c1), t[*x], t[*y], t[*z])),
            Op::AddConst(a, c) => t.push(builder.add_const(t[*a], F(*c))),
            Op::MulConst(c, a) => t.push(builder.mul_const(F(*c), t[*a])),
            Op::AddMany(v) => t.push(builder.add_many(v.iter().map(|x| t[*x]))),
            Op::MulMany(v) => t.push(builder.mul_many(v.iter().map(|x| t[*x]))),
            Op::ExpU64(a, e) => t.push(builder.exp_u64(t[*a], *e)),
            Op::ExpPow2(a, k) => t.push(builder.exp_power_of_2(t[*a], *k)),
            Op::ExpBits(b, e, nb) => t.push(builder.exp(t[*b], t[*e], *nb)),
            Op::ExpConstBase(base, bits) => {
                let bs: Vec<BoolTarget> = bits.iter().map(|b| bt(b, &t)).collect();
                t.push(builder.exp_from_bits_const_base(F(*base), bs.iter()))
            }
            Op::Inverse(a) => t.push(builder.inverse(t[*a])),
            Op::Div(a, b) => t.push(builder.div(t[*a], t[*b])),
            Op::IsEqual(a, b) => t.push(builder.is_equal(t[*a], t[*b]).target),
            Op::Select(b, x, y) => t.push(builder.select(bt(b, &t), t[*x], t[*y])),
            Op::Not(b) => t.push(builder.not(bt(b, &t)).target),
            Op::And(a, b) => t.push(builder.and(bt(a, &t), bt(b, &t)).target),
            Op::Or(a, b) => t.push(builder.or(bt(a, &t), bt(b, &t)).target),
            Op::SplitLe(a, n) => t.extend(builder.split_le(t[*a], *n).iter().map(|b| b.target)),
            Op::LeSum(bits) => {
                let bs: Vec<BoolTarget> = bits.iter().map(|b| bt(b, &t)).collect();
                t.push(builder.le_sum(bs.iter()))
            }
            Op::SplitBase(b, a, n) => {
                let limbs = match b {
                    2 => builder.split_le_base::<2>(t[*a], *n),
                    3 => builder.split_le_base::<3>(t[*a], *n),
                    _ => builder.split_le_base::<4>(t[*a], *n),
                };
                t.extend(limbs)
            }
            Op::RangeCheck(a, n) => builder.range_check(t[*a], *n),
            Op::LowBits(a, low, n) => t.extend(builder.low_bits(t[*a], *low, *n).iter().map(|b| b.target)),
            Op::SplitLowHigh(a, nlog, nbits) => {
                let (lo, hi) = builder.split_low_high(t[*a], *nlog, *nbits);
                t.push(lo);
                t.push(hi);
            }
            Op::RandomAccess(idx, v) => t.push(builder.random_access(t[*idx], v.iter().map(|x| t[*x]).collect())),
            Op::Connect(a, b) => builder.connect(t[*a], t[*b]),
            Op::AssertZero(a) => builder.assert_zero(t[*a]),
            Op::AssertOne(a) => builder.assert_one(t[*a]),
            Op::AssertBool(a) => builder.assert_bool(bt(a, &t)),
            Op::ExtAdd(a, b) => t.extend(builder.add_extension(et(a, &t), et(b, &t)).0),
            Op::ExtSub(a, b) => t.extend(builder.sub_extension(et(a, &t), et(b, &t)).0),
            Op::ExtMul(a, b) => t.extend(builder.mul_extension(et(a, &t), et(b, &t)).0),
            Op::ExtDiv(a, b) => t.extend(builder.div_extension(et(a, &t), et(b, &t)).0),
            Op::ExtInverse(a) => t.extend(builder.inverse_extension(et(a, &t)).0),
            Op::ExtSquare(a) => t.extend(builder.square_extension(et(a, &t)).0),
            Op::ExtScalarMul(s, a) => t.extend(builder.scalar_mul_ext(t[*s], et(a, &t)).0),
            Op::ExtMulAdd(a, b, c) => t.extend(builder.mul_add_extension(et(a, &t), et(b, &t), et(c, &t)).0),
            Op::ExtArith(c0, c1, a, b, c) => t.extend(builder.arithmetic_extension(F(*c0), F(*c1), et(a, &t), et(b, &t), et(c, &t)).0),
            Op::ExtMulMany(v) => {
                let es: Vec<ExtensionTarget<D>> = v.iter().map(|x| et(x, &t)).collect();
                t.extend(builder.mul_many_extension(es.iter()).0)
            }
            Op::ExtExpU64(a, e) => t.extend(builder.exp_u64_extension(et(a, &t), *e).0),
            Op::ReduceExt(alpha, terms) => {
                let es: Vec<ExtensionTarget<D>> = terms.iter().map(|x| et(x, &t)).collect();
                let mut rf = ReducingFactorTarget::new(et(alpha, &t));
                t.extend(rf.reduce(&es, builder).0)
            }
            Op::ReduceBase(alpha, terms) => {
                let ts: Vec<Target> = terms.iter().map(|x| t[*x]).collect();
                let mut rf = ReducingFactorTarget::new(et(alpha, &t));
                t.extend(rf.reduce_base(&ts, builder).0)
            }
            Op::HashNoPad(v) => t.extend(builder.hash_n_to_hash_no_pad::<PoseidonHash>(v.iter().map(|x| t[*x]).collect()).elements),
            Op::Permute(v) => {
                use plonky2::hash::hashing::PlonkyPermutation;
                use plonky2::hash::poseidon::PoseidonPermutation;
                let st = PoseidonPermutation::<Target>::new(v.iter().map(|x| t[*x]));
                let out = builder.permute::<PoseidonHash>(st);
                t.extend(out.as_ref().iter().copied())
            }
            Op::Lookup(a, tb) => t.push(builder.add_lookup_from_index(t[*a], lut_ids[*tb])),
            Op::Public(a) => builder.register_public_input(t[*a]),
        }
    }
    (input_targets, t)
}

pub fn build<C: GenericConfig<D, F = F>>(p: &Program, config: &CircuitConfig) -> Built<C> {
    let mut builder = CircuitBuilder::<F, D>::new(config.clone());
    let (input_targets, reg_targets) = emit(p, &mut builder);
    let data = builder.build::<C>();
    Built { data, input_targets, reg_targets }
}

// ---- configurations ----------------------------------------------------------------------------

pub fn describe_config(c: &CircuitConfig) -> Value {
    json!({
        "num_wires": c.num_wires, "num_routed_wires": c.num_routed_wires, "num_constants": c.num_constants,
        "use_base_arithmetic_gate": c.use_base_arithmetic_gate, "num_challenges": c.num_challenges,
        "zero_knowledge": c.zero_knowledge, "max_quotient_degree_factor": c.max_quotient_degree_factor,
        "rate_bits": c.fri_config.rate_bits, "cap_height": c.fri_config.cap_height,
        "pow_bits": c.fri_config.proof_of_work_bits, "num_query_rounds": c.fri_config.num_query_rounds,
        "reduction_strategy": format!("{:?}", c.fri_config.reduction_strategy),
    })
}

/// Samples a configuration from the admissible lattice. `small` keeps FRI cheap (few queries, low
/// grinding) so that thousands of proofs fit into a run.
pub fn gen_config<R: Rng>(rng: &mut R, small: bool) -> CircuitConfig {
    let rate_bits = [3usize, 3, 3, 4, 5][rng.gen_range(0..5)];
    let max_q = 1usize << rate_bits;
    let qdf = match rng.gen_range(0..4) {
        0 => 8,
        1 => 7,
        _ => rng.gen_range(7..=max_q.min(16)),
    };
    let num_routed_wires = [80usize, 80, 56, 100, 135, 40][rng.gen_range(0..6)];
    let num_wires = [135usize, 135, 136, 234, 150][rng.gen_range(0..5)].max(num_routed_wires);
    let strategy = match rng.gen_range(0..6) {
        0 => FriReductionStrategy::ConstantArityBits(rng.gen_range(1..=4), rng.gen_range(0..=5)),
        1 => FriReductionStrategy::ConstantArityBits(4, 5),
        2 => FriReductionStrategy::MinSize(None),
        3 => FriReductionStrategy::MinSize(Some(rng.gen_range(1..=4))),
        4 => FriReductionStrategy::Fixed((0..rng.gen_range(0..3)).map(|_| rng.gen_range(1..=3)).collect()),
        _ => FriReductionStrategy::Fixed(vec![]),
    };
    let num_query_rounds = if small { rng.gen_range(2..10) } else { rng.gen_range(10..40) };
    let pow = if small { rng.gen_range(0..6) } else { rng.gen_range(0..12) };
    CircuitConfig {
        num_wires,
        num_routed_wires,
        num_constants: [2usize, 2, 3, 4][rng.gen_range(0..4)],
        use_base_arithmetic_gate: rng.gen_bool(0.7),
        security_bits: (num_query_rounds * rate_bits + pow as usize).min(128),
        num_challenges: [1usize, 2, 2, 3][rng.gen_range(0..4)],
        zero_knowledge: rng.gen_bool(0.3),
        max_quotient_degree_factor: qdf,
        fri_config: FriConfig {
            rate_bits,
            cap_height: rng.gen_range(0..=4),
            proof_of_work_bits: pow,
            reduction_strategy: strategy,
            num_query_rounds,
        },
    }
}

/// Fast standard-shaped config (standard gate layout, cheap FRI).
pub fn fast_config() -> CircuitConfig {
    let mut c = CircuitConfig::standard_recursion_config();
    c.fri_config.num_query_rounds = 8;
    c.fri_config.proof_of_work_bits = 2;
    c.security_bits = 8 * 3 + 2;
    c
}

// ---- honest proofs for the tamper / compression / serialization workloads ------------------------

use plonky2::iop::witness::{PartialWitness, WitnessWrite};
use plonky2::plonk::proof::ProofWithPublicInputs;

pub struct Proven<C: GenericConfig<D, F = F>> {
    pub built: Built<C>,
    pub proof: ProofWithPublicInputs<F, C, D>,
    pub prog: Program,
    pub inputs: Vec<u64>,
    pub config: CircuitConfig,
}

pub fn witness_for<C: GenericConfig<D, F = F>>(built: &Built<C>, inputs: &[u64]) -> PartialWitness<F> {
    let mut pw = PartialWitness::<F>::new();
    for (t, v) in built.input_targets.iter().zip(inputs) {
        pw.set_target(*t, F(*v)).unwrap();
    }
    pw
}

/// Builds the program under `config` and proves it on its designated input. Errors (refused
/// configuration, prover failure) are returned as text; callers decide what they mean.
pub fn make_proven<C: GenericConfig<D, F = F>>(prog: Program, inputs: Vec<u64>, config: CircuitConfig) -> Result<Proven<C>, String> {
    let built = crate::mon::catch(|| build::<C>(&prog, &config)).map_err(|p| format!("build panic: {} @ {}", p.msg, p.loc))?;
    let pw = witness_for(&built, &inputs);
    let proof = crate::mon::catch(|| built.data.prove(pw)).map_err(|p| format!("prove panic: {} @ {}", p.msg, p.loc))?.map_err(|e| format!("prove error: {e}"))?;
    Ok(Proven { built, proof, prog, inputs, config })
}
