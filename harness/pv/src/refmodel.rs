//! Independent reference models: Goldilocks arithmetic over u128, schoolbook extension
//! arithmetic, textbook Poseidon, overwrite sponge / duplex challenger, naive Merkle tree,
//! O(n^2) DFT, schoolbook polynomials. None of this calls into the crate's arithmetic.

pub const P: u64 = 0xFFFF_FFFF_0000_0001;
const P128: u128 = P as u128;

#[inline]
pub fn canon(a: u64) -> u64 {
    (a as u128 % P128) as u64
}
#[inline]
pub fn radd(a: u64, b: u64) -> u64 {
    ((a as u128 + b as u128) % P128) as u64
}
#[inline]
pub fn rsub(a: u64, b: u64) -> u64 {
    ((a as u128 % P128 + P128 - b as u128 % P128) % P128) as u64
}
#[inline]
pub fn rneg(a: u64) -> u64 {
    rsub(0, a)
}
#[inline]
pub fn rmul(a: u64, b: u64) -> u64 {
    ((a as u128 % P128) * (b as u128 % P128) % P128) as u64
}
#[inline]
pub fn rmul_raw(a: u64, b: u64) -> u64 {
    // product of raw 64-bit values (may exceed p each) — still < 2^128
    ((a as u128) * (b as u128) % P128) as u64
}
pub fn rpow(a: u64, mut e: u64) -> u64 {
    let mut base = canon(a);
    let mut acc = 1u64;
    while e > 0 {
        if e & 1 == 1 {
            acc = rmul(acc, base);
        }
        base = rmul(base, base);
        e >>= 1;
    }
    acc
}
pub fn rinv(a: u64) -> Option<u64> {
    if canon(a) == 0 {
        None
    } else {
        Some(rpow(a, P - 2))
    }
}
pub fn rred128(x: u128) -> u64 {
    (x % P128) as u64
}

// ---- extensions F[X]/(X^D - W), schoolbook ----------------------------------------------------

pub fn ext_add(a: &[u64], b: &[u64]) -> Vec<u64> {
    a.iter().zip(b).map(|(&x, &y)| radd(x, y)).collect()
}
pub fn ext_sub(a: &[u64], b: &[u64]) -> Vec<u64> {
    a.iter().zip(b).map(|(&x, &y)| rsub(x, y)).collect()
}
pub fn ext_mul(a: &[u64], b: &[u64], w: u64) -> Vec<u64> {
    let d = a.len();
    let mut wide = vec![0u64; 2 * d - 1];
    for i in 0..d {
        for j in 0..d {
            wide[i + j] = radd(wide[i + j], rmul(a[i], b[j]));
        }
    }
    let mut out = vec![0u64; d];
    for (k, &v) in wide.iter().enumerate() {
        if k < d {
            out[k] = radd(out[k], v);
        } else {
            out[k - d] = radd(out[k - d], rmul(w, v));
        }
    }
    out
}
pub fn ext_one(d: usize) -> Vec<u64> {
    let mut v = vec![0u64; d];
    v[0] = 1;
    v
}
pub fn ext_is_zero(a: &[u64]) -> bool {
    a.iter().all(|&x| canon(x) == 0)
}
/// a^e with e given as little-endian u64 limbs.
pub fn ext_pow_limbs(a: &[u64], e: &[u64], w: u64) -> Vec<u64> {
    let d = a.len();
    let mut acc = ext_one(d);
    let mut base: Vec<u64> = a.iter().map(|&x| canon(x)).collect();
    for &limb in e {
        let mut l = limb;
        for _ in 0..64 {
            if l & 1 == 1 {
                acc = ext_mul(&acc, &base, w);
            }
            base = ext_mul(&base, &base, w);
            l >>= 1;
        }
    }
    acc
}
/// x^p (Frobenius) by exponentiation.
pub fn ext_frobenius(a: &[u64], w: u64) -> Vec<u64> {
    ext_pow_limbs(a, &[P], w)
}

// ---- polynomials (coefficient vectors over the reference field) -------------------------------

pub fn poly_eval(coeffs: &[u64], x: u64) -> u64 {
    let mut acc = 0u64;
    for &c in coeffs.iter().rev() {
        acc = radd(rmul(acc, x), c);
    }
    acc
}
pub fn poly_mul(a: &[u64], b: &[u64]) -> Vec<u64> {
    if a.is_empty() || b.is_empty() {
        return vec![];
    }
    let mut out = vec![0u64; a.len() + b.len() - 1];
    for (i, &x) in a.iter().enumerate() {
        for (j, &y) in b.iter().enumerate() {
            out[i + j] = radd(out[i + j], rmul(x, y));
        }
    }
    out
}
pub fn poly_trim(mut a: Vec<u64>) -> Vec<u64> {
    while let Some(&l) = a.last() {
        if canon(l) == 0 {
            a.pop();
        } else {
            break;
        }
    }
    a.iter().map(|&x| canon(x)).collect()
}
/// Schoolbook division: returns (q, r) with a = q*b + r, deg r < deg b. `b` must be non-zero.
pub fn poly_divrem(a: &[u64], b: &[u64]) -> (Vec<u64>, Vec<u64>) {
    let b = poly_trim(b.to_vec());
    assert!(!b.is_empty());
    let mut r = poly_trim(a.to_vec());
    if r.len() < b.len() {
        return (vec![], r);
    }
    let mut q = vec![0u64; r.len() - b.len() + 1];
    let lead_inv = rinv(*b.last().unwrap()).unwrap();
    while r.len() >= b.len() {
        let shift = r.len() - b.len();
        let c = rmul(*r.last().unwrap(), lead_inv);
        q[shift] = c;
        for (i, &bi) in b.iter().enumerate() {
            r[shift + i] = rsub(r[shift + i], rmul(c, bi));
        }
        r = poly_trim(r);
        if r.is_empty() {
            break;
        }
    }
    (poly_trim(q), r)
}

/// Primitive 2^k-th root of unity consistent with POWER_OF_TWO_GENERATOR (7277203076849721926
/// has order 2^32); the constant is cross-checked by the C15 workload (order test).
pub const POW2_GEN: u64 = 7277203076849721926;
pub fn root_of_unity(n_log: usize) -> u64 {
    assert!(n_log <= 32);
    let mut g = POW2_GEN;
    for _ in n_log..32 {
        g = rmul(g, g);
    }
    g
}
/// O(n^2) DFT: out[i] = sum_j c[j] * (shift*w^i)^j.
pub fn naive_dft(coeffs: &[u64], shift: u64) -> Vec<u64> {
    let n = coeffs.len();
    let n_log = n.trailing_zeros() as usize;
    assert!(n == 1 << n_log);
    let w = root_of_unity(n_log);
    let mut x = canon(shift);
    let mut out = Vec::with_capacity(n);
    for _ in 0..n {
        out.push(poly_eval(coeffs, x));
        x = rmul(x, w);
    }
    out
}

// ---- textbook Poseidon over the reference field -----------------------------------------------

pub const SPONGE_WIDTH: usize = 12;
pub const SPONGE_RATE: usize = 8;
pub const HALF_N_FULL_ROUNDS: usize = 4;
pub const N_PARTIAL_ROUNDS: usize = 22;

pub struct PoseidonRef {
    pub round_constants: Vec<u64>, // 12 * 30
    pub mds_circ: [u64; 12],
    pub mds_diag: [u64; 12],
}

impl PoseidonRef {
    fn sbox(x: u64) -> u64 {
        let x2 = rmul(x, x);
        let x4 = rmul(x2, x2);
        let x3 = rmul(x2, x);
        rmul(x4, x3)
    }
    pub fn mds(&self, s: &[u64; 12]) -> [u64; 12] {
        let mut out = [0u64; 12];
        for r in 0..12 {
            let mut acc = 0u64;
            for i in 0..12 {
                acc = radd(acc, rmul(s[(i + r) % 12], self.mds_circ[i]));
            }
            acc = radd(acc, rmul(s[r], self.mds_diag[r]));
            out[r] = acc;
        }
        out
    }
    pub fn permute(&self, input: &[u64; 12]) -> [u64; 12] {
        let mut s = [0u64; 12];
        for i in 0..12 {
            s[i] = canon(input[i]);
        }
        let total = 2 * HALF_N_FULL_ROUNDS + N_PARTIAL_ROUNDS;
        for round in 0..total {
            for i in 0..12 {
                s[i] = radd(s[i], self.round_constants[round * 12 + i]);
            }
            let full = round < HALF_N_FULL_ROUNDS || round >= HALF_N_FULL_ROUNDS + N_PARTIAL_ROUNDS;
            if full {
                for i in 0..12 {
                    s[i] = Self::sbox(s[i]);
                }
            } else {
                s[0] = Self::sbox(s[0]);
            }
            s = self.mds(&s);
        }
        s
    }
}

// ---- overwrite-mode sponge and duplex challenger over an abstract permutation ------------------

pub fn sponge_hash_no_pad(perm: &dyn Fn(&[u64; 12]) -> [u64; 12], input: &[u64], n_out: usize) -> Vec<u64> {
    let mut state = [0u64; 12];
    for chunk in input.chunks(SPONGE_RATE) {
        for (i, &x) in chunk.iter().enumerate() {
            state[i] = canon(x);
        }
        state = perm(&state);
    }
    let mut out = vec![];
    loop {
        for i in 0..SPONGE_RATE {
            out.push(state[i]);
            if out.len() == n_out {
                return out;
            }
        }
        state = perm(&state);
    }
}

pub fn two_to_one(perm: &dyn Fn(&[u64; 12]) -> [u64; 12], l: &[u64; 4], r: &[u64; 4]) -> [u64; 4] {
    let mut state = [0u64; 12];
    for i in 0..4 {
        state[i] = canon(l[i]);
        state[4 + i] = canon(r[i]);
    }
    let s = perm(&state);
    [s[0], s[1], s[2], s[3]]
}

/// Duplex challenger model: observing buffers inputs; a squeeze with pending inputs absorbs them
/// in rate-sized chunks (overwrite) and refills the output buffer with the rate part; outputs pop
/// from the back of the buffer; an observation discards buffered outputs.
pub struct DuplexRef {
    pub state: [u64; 12],
    pub input: Vec<u64>,
    pub output: Vec<u64>,
}
impl DuplexRef {
    pub fn new() -> Self {
        DuplexRef { state: [0; 12], input: vec![], output: vec![] }
    }
    pub fn observe(&mut self, perm: &dyn Fn(&[u64; 12]) -> [u64; 12], x: u64) {
        self.output.clear();
        self.input.push(canon(x));
        if self.input.len() == SPONGE_RATE {
            self.duplex(perm);
        }
    }
    fn duplex(&mut self, perm: &dyn Fn(&[u64; 12]) -> [u64; 12]) {
        assert!(self.input.len() <= SPONGE_RATE);
        for (i, &x) in self.input.iter().enumerate() {
            self.state[i] = x;
        }
        self.input.clear();
        self.state = perm(&self.state);
        self.output = self.state[..SPONGE_RATE].to_vec();
    }
    pub fn challenge(&mut self, perm: &dyn Fn(&[u64; 12]) -> [u64; 12]) -> u64 {
        if !self.input.is_empty() || self.output.is_empty() {
            self.duplex(perm);
        }
        self.output.pop().unwrap()
    }
}

// ---- Keccak-f[1600] / Keccak-256 reference -----------------------------------------------------

const KECCAK_RC: [u64; 24] = [
    0x0000000000000001, 0x0000000000008082, 0x800000000000808a, 0x8000000080008000,
    0x000000000000808b, 0x0000000080000001, 0x8000000080008081, 0x8000000000008009,
    0x000000000000008a, 0x0000000000000088, 0x0000000080008009, 0x000000008000000a,
    0x000000008000808b, 0x800000000000008b, 0x8000000000008089, 0x8000000000008003,
    0x8000000000008002, 0x8000000000000080, 0x000000000000800a, 0x800000008000000a,
    0x8000000080008081, 0x8000000000008080, 0x0000000080000001, 0x8000000080008008,
];
const KECCAK_ROT: [[u32; 5]; 5] = [
    [0, 36, 3, 41, 18],
    [1, 44, 10, 45, 2],
    [62, 6, 43, 15, 61],
    [28, 55, 25, 21, 56],
    [27, 20, 39, 8, 14],
];
pub fn keccak_f(a: &mut [u64; 25]) {
    // a[x + 5*y]
    for rc in KECCAK_RC.iter() {
        let mut c = [0u64; 5];
        for x in 0..5 {
            c[x] = a[x] ^ a[x + 5] ^ a[x + 10] ^ a[x + 15] ^ a[x + 20];
        }
        for x in 0..5 {
            let d = c[(x + 4) % 5] ^ c[(x + 1) % 5].rotate_left(1);
            for y in 0..5 {
                a[x + 5 * y] ^= d;
            }
        }
        let mut b = [0u64; 25];
        for x in 0..5 {
            for y in 0..5 {
                b[y + 5 * ((2 * x + 3 * y) % 5)] = a[x + 5 * y].rotate_left(KECCAK_ROT[x][y]);
            }
        }
        for x in 0..5 {
            for y in 0..5 {
                a[x + 5 * y] = b[x + 5 * y] ^ ((!b[(x + 1) % 5 + 5 * y]) & b[(x + 2) % 5 + 5 * y]);
            }
        }
        a[0] ^= rc;
    }
}
pub fn keccak256(data: &[u8]) -> [u8; 32] {
    const RATE: usize = 136;
    let mut st = [0u64; 25];
    let mut padded = data.to_vec();
    padded.push(0x01);
    while padded.len() % RATE != 0 {
        padded.push(0);
    }
    let l = padded.len();
    padded[l - 1] |= 0x80;
    for block in padded.chunks(RATE) {
        for i in 0..RATE / 8 {
            let mut w = [0u8; 8];
            w.copy_from_slice(&block[8 * i..8 * i + 8]);
            st[i] ^= u64::from_le_bytes(w);
        }
        keccak_f(&mut st);
    }
    let mut out = [0u8; 32];
    for i in 0..4 {
        out[8 * i..8 * i + 8].copy_from_slice(&st[i].to_le_bytes());
    }
    out
}
