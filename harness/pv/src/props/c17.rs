//! C17 — binary encodings round-trip and restored circuits are interchangeable.

use std::collections::{BTreeMap, BTreeSet};

use plonky2::field::goldilocks_field::GoldilocksField as F;
use plonky2::field::types::PrimeField64;
use plonky2::iop::generator::generate_partial_witness;
use plonky2::iop::target::Target;
use plonky2::iop::witness::{PartialWitness, Witness, WitnessWrite};
use plonky2::plonk::circuit_builder::CircuitBuilder;
use plonky2::plonk::circuit_data::{CircuitConfig, CircuitData, CommonCircuitData, ProverCircuitData, VerifierCircuitData, VerifierOnlyCircuitData};
use plonky2::plonk::config::{GenericConfig, KeccakGoldilocksConfig, PoseidonGoldilocksConfig};
use plonky2::plonk::proof::{CompressedProofWithPublicInputs, ProofWithPublicInputs};
use plonky2::util::serialization::{DefaultGateSerializer, DefaultGeneratorSerializer};
use rand::Rng;
use rayon::prelude::*;
use serde_json::{json, Value};

use crate::circ::{self, GenOpts, D};
use crate::gen;
use crate::mon::{catch, msg_class, norm_loc, Run, Tier};
use crate::sat::short_gate_id;

type PC = PoseidonGoldilocksConfig;

#[derive(Default)]
struct Acc {
    evals: u64,
    counters: BTreeMap<String, u64>,
    fails: Vec<(String, Value)>,
    keys: Vec<String>,
    gates: BTreeSet<String>,
    generators: BTreeSet<String>,
    sample: Option<Value>,
    inconclusive: Vec<String>,
}
impl Acc {
    fn c(&mut self, k: &str) {
        *self.counters.entry(k.to_string()).or_insert(0) += 1;
    }
    fn fail(&mut self, sig: &str, d: Value) {
        self.fails.push((sig.to_string(), d));
    }
}

fn short_gen_id(id: &str) -> String {
    id.split(|c: char| c == ' ' || c == '{' || c == '<' || c == '(' || c == '+').next().unwrap_or("").to_string()
}

/// Proof-level encodings (any hasher).
fn check_proof_encodings<C: GenericConfig<D, F = F>>(acc: &mut Acc, data: &CircuitData<F, C, D>, proof: &ProofWithPublicInputs<F, C, D>, desc: &Value) {
    let common = &data.common;
    // proof
    acc.evals += 1;
    let bytes = proof.to_bytes();
    match catch(|| ProofWithPublicInputs::<F, C, D>::from_bytes(bytes.clone(), common)) {
        Ok(Ok(p2)) => {
            if &p2 != proof {
                acc.fail("encoding.proof.decoded_value_differs", json!({"circuit": desc}));
            }
            if p2.to_bytes() != bytes {
                acc.fail("encoding.proof.reencoding_differs", json!({"circuit": desc}));
            }
            if !matches!(catch(|| data.verify(p2)), Ok(Ok(()))) {
                acc.fail("encoding.proof.decoded_proof_not_accepted", json!({"circuit": desc}));
            }
        }
        other => acc.fail("encoding.proof.decoding_failed", json!({"circuit": desc, "err": format!("{:?}", other.map(|r| r.map(|_| ()).map_err(|e| e.to_string())).map_err(|p| p.msg))})),
    }
    acc.c("round_trips.proof");
    // compressed proof
    if let Ok(Ok(cp)) = catch(|| data.compress(proof.clone())) {
        acc.evals += 1;
        let bytes = cp.to_bytes();
        match catch(|| CompressedProofWithPublicInputs::<F, C, D>::from_bytes(bytes.clone(), common)) {
            Ok(Ok(c2)) => {
                if c2 != cp {
                    acc.fail("encoding.compressed_proof.decoded_value_differs", json!({"circuit": desc}));
                }
                if c2.to_bytes() != bytes {
                    acc.fail("encoding.compressed_proof.reencoding_differs", json!({"circuit": desc}));
                }
                if !matches!(catch(|| data.verify_compressed(c2)), Ok(Ok(()))) {
                    acc.fail("encoding.compressed_proof.decoded_proof_not_accepted", json!({"circuit": desc}));
                }
            }
            other => acc.fail("encoding.compressed_proof.decoding_failed", json!({"circuit": desc, "err": format!("{:?}", other.map(|r| r.map(|_| ()).map_err(|e| e.to_string())).map_err(|p| p.msg))})),
        }
        acc.c("round_trips.compressed_proof");
    } else {
        acc.fail("encoding.compressed_proof.compress_failed", json!({"circuit": desc}));
    }
    // verifier-only data, common data, verifier circuit data
    let gs = DefaultGateSerializer;
    acc.evals += 1;
    match catch(|| data.verifier_only.to_bytes().and_then(VerifierOnlyCircuitData::<C, D>::from_bytes)) {
        Ok(Ok(v2)) => {
            if v2 != data.verifier_only {
                acc.fail("encoding.verifier_only.decoded_value_differs", json!({"circuit": desc}));
            }
        }
        _ => acc.fail("encoding.verifier_only.round_trip_failed", json!({"circuit": desc})),
    }
    acc.c("round_trips.verifier_only");
    acc.evals += 1;
    match catch(|| common.to_bytes(&gs).and_then(|b| CommonCircuitData::<F, D>::from_bytes(b.clone(), &gs).map(|c| (b, c)))) {
        Ok(Ok((b, c2))) => {
            if &c2 != common {
                acc.fail("encoding.common_data.decoded_value_differs", json!({"circuit": desc}));
            }
            if c2.to_bytes(&gs).ok() != Some(b) {
                acc.fail("encoding.common_data.reencoding_differs", json!({"circuit": desc}));
            }
        }
        _ => acc.fail("encoding.common_data.round_trip_failed", json!({"circuit": desc})),
    }
    acc.c("round_trips.common_data");
    acc.evals += 1;
    let vcd = data.verifier_data();
    match catch(|| vcd.to_bytes(&gs).and_then(|b| VerifierCircuitData::<F, C, D>::from_bytes(b, &gs))) {
        Ok(Ok(v2)) => {
            if v2 != vcd {
                acc.fail("encoding.verifier_circuit_data.decoded_value_differs", json!({"circuit": desc}));
            }
            if !matches!(catch(|| v2.verify(proof.clone())), Ok(Ok(()))) {
                acc.fail("encoding.verifier_circuit_data.restored_verifier_rejects_proof", json!({"circuit": desc}));
            }
        }
        _ => acc.fail("encoding.verifier_circuit_data.round_trip_failed", json!({"circuit": desc})),
    }
    acc.c("round_trips.verifier_circuit_data");
}

/// Full-circuit encodings + interchangeability (algebraic hasher configs).
fn check_circuit_encodings(acc: &mut Acc, data: &CircuitData<F, PC, D>, proof: &ProofWithPublicInputs<F, PC, D>, inputs: &[(Target, F)], probe_targets: &[Target], desc: &Value) {
    let gs = DefaultGateSerializer;
    let gens = DefaultGeneratorSerializer::<PC, D>::default();
    for g in data.common.gates.iter() {
        acc.gates.insert(short_gate_id(&g.0.id()));
    }
    for g in data.prover_only.generators.iter() {
        acc.generators.insert(short_gen_id(&g.0.id()));
    }
    acc.evals += 1;
    let bytes = match catch(|| data.to_bytes(&gs, &gens)) {
        Ok(Ok(b)) => b,
        other => {
            acc.fail("encoding.circuit.encoding_failed", json!({"circuit": desc, "err": format!("{:?}", other.map(|r| r.map(|_| ()).map_err(|_| "IoError")).map_err(|p| p.msg))}));
            return;
        }
    };
    let data2 = match catch(|| CircuitData::<F, PC, D>::from_bytes(&bytes, &gs, &gens)) {
        Ok(Ok(d)) => d,
        other => {
            acc.fail("encoding.circuit.decoding_failed", json!({"circuit": desc, "err": format!("{:?}", other.map(|r| r.map(|_| ()).map_err(|_| "IoError")).map_err(|p| format!("{} @ {}", p.msg, norm_loc(&p.loc))))}));
            return;
        }
    };
    acc.c("round_trips.circuit_data");
    if &data2 != data {
        let which = if data2.common != data.common { "common" } else if data2.verifier_only != data.verifier_only { "verifier_only" } else { "prover_only" };
        acc.fail(&format!("encoding.circuit.decoded_value_differs.{which}"), json!({"circuit": desc}));
    }
    match catch(|| data2.to_bytes(&gs, &gens)) {
        Ok(Ok(b2)) if b2 == bytes => {}
        _ => acc.fail("encoding.circuit.reencoding_differs", json!({"circuit": desc})),
    }
    if data2.verifier_only.circuit_digest != data.verifier_only.circuit_digest {
        acc.fail("encoding.circuit.restored_digest_differs", json!({"circuit": desc}));
    }
    // interchange: witnesses, proofs
    let mk_pw = || {
        let mut pw = PartialWitness::<F>::new();
        for (t, v) in inputs {
            pw.set_target(*t, *v).unwrap();
        }
        pw
    };
    acc.evals += 1;
    let w1 = catch(|| generate_partial_witness(mk_pw(), &data.prover_only, &data.common));
    let w2 = catch(|| generate_partial_witness(mk_pw(), &data2.prover_only, &data2.common));
    match (w1, w2) {
        (Ok(Ok(w1)), Ok(Ok(w2))) => {
            for t in probe_targets {
                if w1.try_get_target(*t) != w2.try_get_target(*t) {
                    acc.fail("encoding.circuit.restored_circuit_generates_another_witness", json!({"circuit": desc, "target": format!("{t:?}")}));
                    break;
                }
            }
        }
        (Ok(Ok(_)), other) => acc.fail("encoding.circuit.restored_circuit_fails_witness_generation", json!({"circuit": desc, "err": format!("{:?}", other.map(|r| r.map(|_| ()).map_err(|e| e.to_string())).map_err(|p| p.msg))})),
        _ => acc.inconclusive.push("witness generation failed on the original circuit".into()),
    }
    acc.evals += 1;
    match catch(|| data2.prove(mk_pw())) {
        Ok(Ok(p2)) => {
            if p2.public_inputs != proof.public_inputs {
                acc.fail("encoding.circuit.restored_circuit_proves_other_public_inputs", json!({"circuit": desc}));
            }
            if !matches!(catch(|| data.verify(p2)), Ok(Ok(()))) {
                acc.fail("encoding.circuit.original_rejects_proof_of_restored_circuit", json!({"circuit": desc}));
            }
        }
        other => acc.fail("encoding.circuit.restored_circuit_cannot_prove", json!({"circuit": desc, "err": format!("{:?}", other.map(|r| r.map(|_| ()).map_err(|e| msg_class(&e.to_string()))).map_err(|p| p.msg))})),
    }
    if !matches!(catch(|| data2.verify(proof.clone())), Ok(Ok(()))) {
        acc.fail("encoding.circuit.restored_circuit_rejects_original_proof", json!({"circuit": desc}));
    }
    // prover circuit data
    acc.evals += 1;
    let pd = data2.prover_data();
    match catch(|| pd.to_bytes(&gs, &gens)) {
        Ok(Ok(pb)) => match catch(|| ProverCircuitData::<F, PC, D>::from_bytes(&pb, &gs, &gens)) {
            Ok(Ok(pd2)) => {
                acc.c("round_trips.prover_circuit_data");
                if pd2.to_bytes(&gs, &gens).ok() != Some(pb) {
                    acc.fail("encoding.prover_data.reencoding_differs", json!({"circuit": desc}));
                }
                if pd2.prover_only != pd.prover_only || pd2.common != pd.common {
                    acc.fail("encoding.prover_data.decoded_value_differs", json!({"circuit": desc}));
                }
                match catch(|| pd2.prove(mk_pw())) {
                    Ok(Ok(p3)) => {
                        if !matches!(catch(|| data.verify(p3)), Ok(Ok(()))) {
                            acc.fail("encoding.prover_data.original_rejects_proof_of_restored_prover", json!({"circuit": desc}));
                        }
                    }
                    _ => acc.fail("encoding.prover_data.restored_prover_cannot_prove", json!({"circuit": desc})),
                }
            }
            _ => acc.fail("encoding.prover_data.decoding_failed", json!({"circuit": desc})),
        },
        _ => acc.fail("encoding.prover_data.encoding_failed", json!({"circuit": desc})),
    }
}

fn case_program(seed: u64, case: u64, quick: bool) -> Acc {
    let mut acc = Acc::default();
    let mut rng = crate::mon::case_rng(seed, 17_001, case);
    let bset = gen::boundary_set();
    let opts = GenOpts { n_ops: rng.gen_range(3..if quick { 120 } else { 500 }), lookups: case % 2 == 0, hashing: rng.gen_bool(0.6), extension: rng.gen_bool(0.7), max_table_len: 90, only_base2: true };
    let (prog, inputs) = circ::gen_program(&mut rng, &bset, &opts);
    let config: CircuitConfig = if rng.gen_bool(0.5) { circ::gen_config(&mut rng, true) } else { circ::fast_config() };
    let desc = json!({"kind": "generated program", "program": prog.describe(), "config": circ::describe_config(&config)});
    if case % 4 == 3 {
        // Keccak: proof-level, verifier-data and common-data encodings only
        match circ::make_proven::<KeccakGoldilocksConfig>(prog, inputs, config) {
            Ok(pr) => {
                acc.keys.push(format!("keccak|{desc}"));
                check_proof_encodings(&mut acc, &pr.built.data, &pr.proof, &desc);
            }
            Err(e) => acc.c(&format!("not_built: {}", msg_class(&e).chars().take(50).collect::<String>())),
        }
        return acc;
    }
    match circ::make_proven::<PC>(prog, inputs.clone(), config) {
        Ok(pr) => {
            acc.keys.push(format!("poseidon|{desc}"));
            check_proof_encodings(&mut acc, &pr.built.data, &pr.proof, &desc);
            let ins: Vec<(Target, F)> = pr.built.input_targets.iter().zip(inputs.iter()).map(|(t, v)| (*t, F(*v))).collect();
            check_circuit_encodings(&mut acc, &pr.built.data, &pr.proof, &ins, &pr.built.reg_targets, &desc);
            if case % 10 == 0 {
                acc.sample = Some(json!({"circuit": desc, "degree_bits": pr.built.data.common.degree_bits(), "generators": pr.built.data.prover_only.generators.len()}));
            }
        }
        Err(e) => acc.c(&format!("not_built: {}", msg_class(&e).chars().take(50).collect::<String>())),
    }
    acc
}

/// Recursion circuits bring the remaining registered gates and generators (coset interpolation,
/// random access at several sizes, dummy-proof generator, ...).
fn case_recursion(seed: u64, case: u64) -> Acc {
    let mut acc = Acc::default();
    let mut rng = crate::mon::case_rng(seed, 17_002, case);
    let bset = gen::boundary_set();
    let opts = GenOpts { n_ops: rng.gen_range(5..80), lookups: case % 4 == 2, hashing: true, extension: true, max_table_len: 40, only_base2: true };
    let (prog, inputs) = circ::gen_program(&mut rng, &bset, &opts);
    let mut config = CircuitConfig::standard_recursion_config();
    config.fri_config.num_query_rounds = 8;
    config.fri_config.proof_of_work_bits = 4;
    config.security_bits = 28;
    // fold even small inner circuits, so that the outer circuit contains coset interpolation gates
    config.fri_config.reduction_strategy = plonky2::fri::reduction_strategies::FriReductionStrategy::ConstantArityBits(if case % 4 < 2 { 2 } else { 3 }, 1);
    // the conditional-or-dummy variant needs a shape that dummy_circuit can reproduce: use the simple
    // shape of the library's own test (one public input, a square, padding)
    let (prog, inputs) = if case % 2 == 1 {
        let k = rng.gen_range(45..100); // enough rows that padding (NoopGate) is part of the gate set, which dummy_circuit needs
        let mut ops = vec![circ::Op::Input, circ::Op::Public(0), circ::Op::Square(0)];
        for i in 0..k {
            ops.push(circ::Op::Square(1 + i));
        }
        (circ::Program { ops, tables: vec![], n_inputs: 1 }, vec![gen::canon_u64(&mut rng, &bset)])
    } else {
        (prog, inputs)
    };
    let inner = match circ::make_proven::<PC>(prog, inputs, config) {
        Ok(p) => p,
        Err(e) => {
            acc.c(&format!("not_built: {}", msg_class(&e).chars().take(50).collect::<String>()));
            return acc;
        }
    };
    let desc = json!({"kind": if case % 2 == 0 { "recursive verifier" } else { "conditional verifier with dummy proof" }, "inner_degree_bits": inner.built.data.common.degree_bits()});
    let common = inner.built.data.common.clone();
    let built = catch(|| -> anyhow::Result<_> {
        let mut b = CircuitBuilder::<F, D>::new(CircuitConfig::standard_recursion_config());
        let pt = b.add_virtual_proof_with_pis(&common);
        let vdt = b.add_virtual_verifier_data(common.config.fri_config.cap_height);
        let mut cond = None;
        if case % 2 == 0 {
            b.verify_proof::<PC>(&pt, &vdt, &common);
        } else {
            let c = b.add_virtual_bool_target_safe();
            b.conditionally_verify_proof_or_dummy::<PC>(c, &pt, &vdt, &common)?;
            cond = Some(c);
        }
        b.register_public_inputs(&pt.public_inputs);
        Ok((b.build::<PC>(), pt, vdt, cond))
    });
    let (data, pt, vdt, cond) = match built {
        Ok(Ok(x)) => x,
        other => {
            acc.c(&format!("outer_not_built: {:?}", other.map(|r| r.map(|_| ()).map_err(|e| e.to_string())).map_err(|p| msg_class(&p.msg))));
            return acc;
        }
    };
    // inputs as (target, value) pairs through a partial witness
    let mut pw = PartialWitness::<F>::new();
    let ok = (|| -> anyhow::Result<()> {
        pw.set_proof_with_pis_target(&pt, &inner.proof)?;
        pw.set_verifier_data_target(&vdt, &inner.built.data.verifier_only)?;
        if let Some(c) = cond {
            pw.set_bool_target(c, true)?;
        }
        Ok(())
    })();
    if ok.is_err() {
        return acc;
    }
    let ins: Vec<(Target, F)> = pw.target_values.iter().map(|(t, v)| (*t, *v)).collect();
    let proof = match catch(|| data.prove(pw)) {
        Ok(Ok(p)) => p,
        _ => {
            acc.inconclusive.push("outer recursion circuit could not be proved (C06's business)".into());
            return acc;
        }
    };
    acc.keys.push(format!("recursion|{desc}|{case}"));
    check_proof_encodings(&mut acc, &data, &proof, &desc);
    let probes: Vec<Target> = pt.public_inputs.clone();
    check_circuit_encodings(&mut acc, &data, &proof, &ins, &probes, &desc);
    acc.sample = Some(json!({"circuit": desc, "degree_bits": data.common.degree_bits(), "generators": data.prover_only.generators.len()}));
    acc
}

/// STARK proofs are encoded through serde.
fn case_stark(seed: u64, case: u64) -> Acc {
    use crate::props::c09::{stark_prove, stark_verify};
    use crate::stk::{self, GenStark, Generated};
    let mut acc = Acc::default();
    let mut rng = crate::mon::case_rng(seed, 17_003, case);
    let lookups = case % 2 == 1;
    let log_n = rng.gen_range(3..7);
    let Generated { spec, trace, pis } = if lookups { stk::gen_lookup_family(&mut rng, 6, 0, 3, log_n) } else { stk::gen_family(&mut rng, 6, 0, 2, log_n) };
    let config = stk::gen_stark_config(&mut rng, spec.degree, true);
    let stark = GenStark::<6, 0>::new(spec.clone());
    let proof = match stark_prove(&stark, &config, &trace, &pis) {
        Ok(p) => p,
        Err(_) => return acc,
    };
    let desc = json!({"kind": "stark proof (serde)", "stark": spec.describe(), "log_n": log_n});
    acc.keys.push(format!("stark|{desc}"));
    acc.evals += 1;
    acc.c("round_trips.stark_proof_serde");
    let s1 = match serde_json::to_string(&proof) {
        Ok(s) => s,
        Err(e) => {
            acc.fail("encoding.stark_proof.serialization_failed", json!({"circuit": desc, "err": e.to_string()}));
            return acc;
        }
    };
    match serde_json::from_str::<starky::proof::StarkProofWithPublicInputs<F, PC, D>>(&s1) {
        Ok(p2) => {
            if serde_json::to_string(&p2).ok().as_deref() != Some(&s1) {
                acc.fail("encoding.stark_proof.reencoding_differs", json!({"circuit": desc}));
            }
            if p2.public_inputs.iter().map(|x| x.to_canonical_u64()).collect::<Vec<_>>() != pis {
                acc.fail("encoding.stark_proof.public_inputs_differ", json!({"circuit": desc}));
            }
            if stark_verify(&stark, &config, p2).is_err() {
                acc.fail("encoding.stark_proof.decoded_proof_not_accepted", json!({"circuit": desc}));
            }
        }
        Err(e) => acc.fail("encoding.stark_proof.decoding_failed", json!({"circuit": desc, "err": e.to_string()})),
    }
    acc
}

pub fn run(tier: Tier) -> ! {
    let mut run = Run::new("C17", "exploration", tier);
    run.rule("for generated circuits (programs over the gadgets of the default registries incl. lookups, hashing, exponentiation, random access; sampled and standard configurations; zk), recursive-verifier circuits and conditional-verifier-with-dummy-proof circuits: from_bytes(to_bytes(x)) == x and re-encoding is byte-identical for ProofWithPublicInputs, CompressedProofWithPublicInputs, VerifierOnlyCircuitData, CommonCircuitData, VerifierCircuitData (Poseidon and Keccak) and for CircuitData / ProverCircuitData (Poseidon); decoded proofs are accepted; the restored circuit has the same digest, generates the same witness values on the same inputs (all program registers / inner public inputs), its proofs are accepted by the original and vice versa, a restored prover proves. STARK proofs round-trip through serde and stay accepted. Gate and generator kinds seen are compared with the default registries.");
    run.assume("circuits using gates outside the default registries (base-3/4 decompositions) need an application-defined serializer and are not generated");
    let quick = run.quick();
    let seed = run.seed;
    let n_prog: u64 = run.pick(24, 400);
    let n_rec: u64 = run.pick(4, 24);
    let n_stark: u64 = run.pick(6, 60);
    let only = run.only_case;
    let accs: Vec<(u64, Acc)> = (0..n_prog + n_rec + n_stark)
        .into_par_iter()
        .filter(|c| only.map(|o| o == *c).unwrap_or(true))
        .map(|c| (c, if c < n_prog { case_program(seed, c, quick) } else if c < n_prog + n_rec { case_recursion(seed, c) } else { case_stark(seed, c) }))
        .collect();
    let mut gates = BTreeSet::new();
    let mut generators = BTreeSet::new();
    for (case, acc) in accs {
        run.evals(acc.evals);
        for (k, v) in acc.counters {
            run.count(&k, v);
        }
        for k in acc.keys {
            run.nontrivial(k);
        }
        if let Some(s) = acc.sample {
            run.sample(s);
        }
        for w in acc.inconclusive {
            run.inconclusive(&w);
        }
        gates.extend(acc.gates);
        generators.extend(acc.generators);
        for (sig, d) in acc.fails {
            run.violation(&sig, case, d);
        }
    }
    let reg_gates = ["ArithmeticGate", "ArithmeticExtensionGate", "BaseSumGate", "ConstantGate", "CosetInterpolationGate", "ExponentiationGate", "LookupGate", "LookupTableGate", "MulExtensionGate", "NoopGate", "PoseidonMdsGate", "PoseidonGate", "PublicInputGate", "RandomAccessGate", "ReducingExtensionGate", "ReducingGate"];
    let missing: Vec<&str> = reg_gates.iter().copied().filter(|g| !gates.contains(*g)).collect();
    run.set_extra("gate_kinds_round_tripped", json!(gates));
    run.set_extra("registered_gate_kinds_not_seen", json!(missing));
    run.set_extra("generator_kinds_round_tripped", json!(generators));
    run.count("generator_kinds_round_tripped", generators.len() as u64);
    run.finish()
}
