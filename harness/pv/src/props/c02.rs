//! C02 — no accepted proof exists for an assignment that violates the circuit.
//!
//! Part A (in-process, parallel, public API only): class corruption of op-output registers,
//! single-cell corruption through an identity representative map, negative-set inputs, public-input
//! edits; the public prover emits a proof whenever the quotient degree factor is a power of two.
//! Part B (sharded worker processes, prover knobs H3): lenient truncation for other factors,
//! degenerate permutation accumulators, per-challenge quotient edits, insufficient grinding.

use std::collections::BTreeMap;

use plonky2::field::goldilocks_field::GoldilocksField as F;
use plonky2::field::types::PrimeField64;
use plonky2::iop::generator::generate_partial_witness;
use plonky2::iop::witness::PartitionWitness;
use plonky2::plonk::circuit_data::CircuitConfig;
use plonky2::plonk::config::{GenericConfig, KeccakGoldilocksConfig, PoseidonGoldilocksConfig};
use plonky2::plonk::proof::ProofWithPublicInputs;
use plonky2::plonk::prover::prove_with_partition_witness;
use plonky2::util::timing::TimingTree;
use plonky2::verif_hooks::{set_knobs, ProverKnobs};
use rand::Rng;
use rand_chacha::ChaCha8Rng;
use rayon::prelude::*;
use serde_json::{json, Value};

use crate::circ::{self, Built, GenOpts, Op, Program, D};
use crate::gen;
use crate::mon::{catch, msg_class, norm_loc, Run, Tier};
use crate::sat::{self, SatCtx, SatReport};

const P: u64 = 0xFFFF_FFFF_0000_0001;

#[derive(Default)]
pub struct Acc {
    pub evals: u64,
    pub counters: BTreeMap<String, u64>,
    pub matrix: BTreeMap<String, u64>,
    pub fails: Vec<(String, Value)>,
    pub inconclusive: Vec<String>,
    pub keys: Vec<String>,
    pub sample: Option<Value>,
}
impl Acc {
    pub fn c(&mut self, k: &str) {
        *self.counters.entry(k.to_string()).or_insert(0) += 1;
    }
    pub fn m(&mut self, strategy: &str, site: &str, outcome: &str) {
        *self.matrix.entry(format!("{strategy} | {site} | {outcome}")).or_insert(0) += 1;
        self.keys.push(format!("{strategy}|{site}"));
    }
}

pub fn reason_class(e: &str) -> String {
    let first = e.lines().next().unwrap_or("");
    let c = msg_class(first);
    if c.is_empty() {
        "Err(<empty message>)".into()
    } else {
        format!("Err({})", c.chars().take(60).collect::<String>())
    }
}

pub enum Outcome {
    ProverPanic(String),
    ProverErr(String),
    Rejected(String),
    VerifierPanic(String),
    Accepted,
}
impl Outcome {
    pub fn label(&self) -> String {
        match self {
            Outcome::ProverPanic(m) => format!("prover refused (panic: {})", msg_class(m).chars().take(60).collect::<String>()),
            Outcome::ProverErr(m) => format!("prover refused ({})", reason_class(m)),
            Outcome::Rejected(m) => format!("verifier {}", reason_class(m)),
            Outcome::VerifierPanic(m) => format!("verifier panicked ({})", msg_class(m).chars().take(60).collect::<String>()),
            Outcome::Accepted => "ACCEPTED".into(),
        }
    }
}

/// Proves `pw` with the real prover (whatever knobs are installed) and asks the real verifier.
pub fn prove_and_verify<C: GenericConfig<D, F = F>>(built: &Built<C>, pw: PartitionWitness<F>) -> (Outcome, Option<ProofWithPublicInputs<F, C, D>>) {
    let proof = match catch(|| prove_with_partition_witness(&built.data.prover_only, &built.data.common, pw, &mut TimingTree::default())) {
        Ok(Ok(p)) => p,
        Ok(Err(e)) => return (Outcome::ProverErr(e.to_string()), None),
        Err(p) => return (Outcome::ProverPanic(format!("{} @ {}", p.msg, norm_loc(&p.loc))), None),
    };
    let plain = match catch(|| built.data.verify(proof.clone())) {
        Ok(Ok(())) => return (Outcome::Accepted, Some(proof)),
        Ok(Err(e)) => Outcome::Rejected(e.to_string()),
        Err(p) => Outcome::VerifierPanic(format!("{} @ {}", p.msg, norm_loc(&p.loc))),
    };
    // "no accepted proof" ranges over every verification entry point: stand-alone verifier data and the
    // compressed form must say no as well
    let by_verifier_data = matches!(catch(|| built.data.verifier_data().verify(proof.clone())), Ok(Ok(())));
    let by_compressed = matches!(
        catch(|| built.data.compress(proof.clone()).and_then(|c| built.data.verify_compressed(c))),
        Ok(Ok(()))
    );
    ALT_PATH_CHECKS.fetch_add(2, std::sync::atomic::Ordering::Relaxed);
    if by_verifier_data || by_compressed {
        ALT_PATH_ACCEPTS.fetch_add(1, std::sync::atomic::Ordering::Relaxed);
        return (Outcome::Accepted, Some(proof));
    }
    (plain, Some(proof))
}

/// Rejected proofs additionally presented to `VerifierCircuitData::verify` and `verify_compressed`.
pub static ALT_PATH_CHECKS: std::sync::atomic::AtomicU64 = std::sync::atomic::AtomicU64::new(0);
/// ... of which accepted there although the plain verifier rejected.
pub static ALT_PATH_ACCEPTS: std::sync::atomic::AtomicU64 = std::sync::atomic::AtomicU64::new(0);

/// A partition witness in which every target is its own class, filled from `pw`.
pub fn explode<'a>(pw: &PartitionWitness<F>, id_map: &'a [usize]) -> PartitionWitness<'a, F> {
    let values: Vec<Option<F>> = (0..id_map.len()).map(|i| pw.values[pw.representative_map[i]]).collect();
    PartitionWitness { values, representative_map: id_map, num_wires: pw.num_wires, degree: pw.degree }
}

fn other_value(rng: &mut ChaCha8Rng, v: u64) -> u64 {
    let nv = match rng.gen_range(0..6) {
        0 => (v + 1) % P,
        1 => {
            if v == 0 {
                1
            } else {
                0
            }
        }
        2 => {
            if v == 0 {
                P - 1
            } else {
                P - v
            }
        }
        3 => ((v as u128 + P as u128 - 1) % P as u128) as u64,
        4 => ((v as u128 * 2) % P as u128) as u64,
        _ => rng.gen_range(0..P),
    };
    if nv == v {
        (v + 1) % P
    } else {
        nv
    }
}

pub struct Subject<C: GenericConfig<D, F = F>> {
    pub prog: Program,
    pub inputs: Vec<u64>,
    pub config: CircuitConfig,
    pub built: Built<C>,
    pub ctx: SatCtx,
    pub desc: Value,
}

/// Builds a generated program under `config`; `None` = configuration refused by the builder.
pub fn subject<C: GenericConfig<D, F = F>>(rng: &mut ChaCha8Rng, opts: &GenOpts, config: CircuitConfig, acc: &mut Acc) -> Option<Subject<C>> {
    let bset = gen::boundary_set();
    let (prog, inputs) = circ::gen_program(rng, &bset, opts);
    let built = match catch(|| circ::build::<C>(&prog, &config)) {
        Ok(b) => b,
        Err(p) => {
            acc.c(&format!("circuit_not_built: {}", msg_class(&p.msg).chars().take(50).collect::<String>()));
            return None;
        }
    };
    let ctx = match SatCtx::new(&built.data.prover_only, &built.data.common) {
        Ok(c) => c,
        Err(e) => {
            acc.inconclusive.push(format!("satisfaction oracle cannot identify the gates of a built circuit: {e}"));
            return None;
        }
    };
    let desc = json!({"program": prog.describe(), "config": circ::describe_config(&config), "degree_bits": built.data.common.degree_bits()});
    Some(Subject { prog, inputs, config, built, ctx, desc })
}

pub fn honest_witness<'a, C: GenericConfig<D, F = F>>(s: &'a Subject<C>, inputs: &[u64]) -> Result<PartitionWitness<'a, F>, String> {
    let pw = circ::witness_for(&s.built, inputs);
    match catch(|| generate_partial_witness(pw, &s.built.data.prover_only, &s.built.data.common)) {
        Ok(Ok(w)) => Ok(w),
        Ok(Err(e)) => Err(format!("error: {e}")),
        Err(p) => Err(format!("panic: {} @ {}", p.msg, norm_loc(&p.loc))),
    }
}

pub fn judge<C: GenericConfig<D, F = F>>(s: &Subject<C>, pw: &PartitionWitness<F>) -> Result<SatReport, String> {
    let (cols, pis) = sat::prover_view(&s.built.data, pw)?;
    Ok(s.ctx.check(&s.built.data.prover_only, &s.built.data.common, &cols, &pis))
}

/// Registers whose class may be corrupted with a guaranteed semantic violation: op outputs whose
/// copy class contains no program-input register.
fn corruptible_registers<C: GenericConfig<D, F = F>>(s: &Subject<C>, pw: &PartitionWitness<F>) -> Vec<(usize, usize)> {
    let nw = pw.num_wires;
    let deg = pw.degree;
    let rep_of = |reg: usize| pw.representative_map[s.built.reg_targets[reg].index(nw, deg)];
    // registers produced by Input ops
    let mut input_reps = std::collections::HashSet::new();
    let mut reg = 0usize;
    let mut out = vec![];
    // replay register numbering
    let ev = s.prog.eval(&s.inputs).expect("designated input satisfies");
    for (i, op) in s.prog.ops.iter().enumerate() {
        let first = ev.op_first_reg[i];
        let next = if i + 1 < s.prog.ops.len() { ev.op_first_reg[i + 1] } else { ev.regs.len() };
        if matches!(op, Op::Input) {
            for r in first..next {
                input_reps.insert(rep_of(r));
            }
        }
        reg = next;
    }
    let _ = reg;
    for (i, op) in s.prog.ops.iter().enumerate() {
        if matches!(op, Op::Input | Op::Lookup(..)) {
            continue;
        }
        let first = ev.op_first_reg[i];
        let next = if i + 1 < s.prog.ops.len() { ev.op_first_reg[i + 1] } else { ev.regs.len() };
        for r in first..next {
            if !input_reps.contains(&rep_of(r)) {
                out.push((r, i));
            }
        }
    }
    out
}

/// Picks an op kind uniformly first, then one of its registers, so that rare gadgets are attacked
/// as often as the ubiquitous ones.
fn pick_register<C: GenericConfig<D, F = F>>(rng: &mut ChaCha8Rng, s: &Subject<C>, regs: &[(usize, usize)]) -> (usize, usize) {
    let mut kinds: Vec<&'static str> = regs.iter().map(|(_, opi)| circ::op_kind(&s.prog.ops[*opi])).collect();
    kinds.sort();
    kinds.dedup();
    let kind = kinds[rng.gen_range(0..kinds.len())];
    let of_kind: Vec<(usize, usize)> = regs.iter().copied().filter(|(_, opi)| circ::op_kind(&s.prog.ops[*opi]) == kind).collect();
    of_kind[rng.gen_range(0..of_kind.len())]
}

/// Routed cells that share their copy class with at least one other routed cell.
fn copy_constrained_cells(ctx: &SatCtx, rep_map: &[usize]) -> Vec<(usize, usize)> {
    let mut count: std::collections::HashMap<usize, u32> = std::collections::HashMap::new();
    for r in 0..ctx.degree {
        for c in 0..ctx.num_routed {
            *count.entry(rep_map[r * ctx.num_wires + c]).or_insert(0) += 1;
        }
    }
    let mut v = vec![];
    for r in 0..ctx.degree {
        for c in 0..ctx.num_routed {
            if count[&rep_map[r * ctx.num_wires + c]] > 1 {
                v.push((r, c));
            }
        }
    }
    v
}

pub fn record<C: GenericConfig<D, F = F>>(acc: &mut Acc, s: &Subject<C>, strategy: &str, site: &str, violating: bool, outcome: &Outcome, case: u64, detail: Value) {
    acc.evals += 1;
    acc.m(strategy, site, &outcome.label());
    let accepted = matches!(outcome, Outcome::Accepted);
    if violating && accepted {
        acc.fails.push((format!("accepted_proof_for_violating_assignment.{strategy}.{site}"), json!({"case": case, "circuit": s.desc, "strategy": strategy, "site": site, "detail": detail})));
    }
    if !violating && !accepted {
        acc.fails.push((format!("benign_assignment_not_accepted.{strategy}.{site}: {}", outcome.label()), json!({"case": case, "circuit": s.desc, "strategy": strategy, "site": site, "detail": detail})));
    }
}

fn config_a(rng: &mut ChaCha8Rng) -> CircuitConfig {
    // quotient degree factor must be a power of two for the public prover to emit a proof
    let mut c = circ::fast_config();
    match rng.gen_range(0..5) {
        0 => c.zero_knowledge = true,
        1 => {
            c.num_challenges = 3;
            c.fri_config.cap_height = 1;
        }
        2 => {
            c.num_challenges = 1;
            c.fri_config.rate_bits = 4;
            c.max_quotient_degree_factor = 16;
            c.fri_config.num_query_rounds = 6;
        }
        3 => {
            c.num_routed_wires = 56;
            c.num_wires = 140;
        }
        _ => {}
    }
    // routed-wire counts that are not multiples of the quotient factor: the last partial-product
    // chunk is then a short one
    if rng.gen_bool(0.5) {
        c.num_routed_wires = [37usize, 50, 61, 75, 100, 123][rng.gen_range(0..6)];
        c.num_wires = c.num_wires.max(c.num_routed_wires + 20);
    }
    c
}

/// Part A: one circuit, several attacks, public API only.
pub fn case_a<C: GenericConfig<D, F = F>>(seed: u64, case: u64, quick: bool) -> Acc {
    let mut acc = Acc::default();
    let mut rng = crate::mon::case_rng(seed, 2_001, case);
    let opts = GenOpts { n_ops: rng.gen_range(5..if quick { 70 } else { 160 }), lookups: false, hashing: rng.gen_bool(0.4), extension: rng.gen_bool(0.6), max_table_len: 0, only_base2: false };
    let config = config_a(&mut rng);
    let s = match subject::<C>(&mut rng, &opts, config, &mut acc) {
        Some(s) => s,
        None => return acc,
    };
    let honest = match honest_witness(&s, &s.inputs) {
        Ok(w) => w,
        Err(e) => {
            acc.inconclusive.push(format!("witness generation failed on the designated input ({e}); C01's business"));
            return acc;
        }
    };
    match judge(&s, &honest) {
        Ok(r) if r.satisfied() => acc.c("oracle.honest_witness_satisfied"),
        Ok(r) => {
            acc.inconclusive.push(format!("satisfaction oracle rejects an honest witness: {}", r.summary()));
            return acc;
        }
        Err(e) => {
            acc.inconclusive.push(format!("oracle error: {e}"));
            return acc;
        }
    }
    for g in s.built.data.common.gates.iter() {
        acc.c(&format!("gate_types_in_subject_circuits.{}", sat::short_gate_id(&g.0.id())));
    }
    let ev = s.prog.eval(&s.inputs).unwrap();
    let nw = honest.num_wires;
    let deg = honest.degree;
    // (a) class corruption of op outputs
    let regs = corruptible_registers(&s, &honest);
    let n_class = if quick { 3 } else { 6 };
    for _ in 0..n_class.min(regs.len()) {
        let (r, opi) = pick_register(&mut rng, &s, &regs);
        let kind = circ::op_kind(&s.prog.ops[opi]);
        let rep = honest.representative_map[s.built.reg_targets[r].index(nw, deg)];
        let v = honest.values[rep].map(|x| x.to_canonical_u64()).unwrap_or(0);
        let nv = other_value(&mut rng, v);
        let mut w = honest.clone();
        w.values[rep] = Some(F(nv));
        let site = format!("class:{kind}");
        let detail = json!({"register": r, "op": format!("{:?}", s.prog.ops[opi]), "old": v, "new": nv, "interpreter": ev.regs[r]});
        match judge(&s, &w) {
            Ok(rep) => {
                if rep.satisfied() {
                    // semantic oracle says violating (output of a deterministic op changed, inputs kept), gates say fine
                    acc.evals += 1;
                    acc.fails.push((format!("gadget_output_not_pinned_by_any_gate_or_copy_constraint.{kind}"), json!({"case": case, "circuit": s.desc, "detail": detail})));
                    continue;
                }
                acc.c(&format!("class_corruption.first_violation.{}", rep.class()));
            }
            Err(e) => {
                acc.c(&format!("class_corruption.prover_view_refused: {}", msg_class(&e).chars().take(40).collect::<String>()));
            }
        }
        let (out, _) = prove_and_verify(&s.built, w);
        record(&mut acc, &s, "S0.public_prover", &site, true, &out, case, detail);
    }
    // (b) single-cell corruption through an identity map
    let id_map: Vec<usize> = (0..honest.representative_map.len()).collect();
    let base = explode(&honest, &id_map);
    let n_cell = if quick { 5 } else { 10 };
    // interesting rows: first, last, the public-input gate row, rows of every gate type
    let mut rows_by_gate: BTreeMap<String, Vec<usize>> = BTreeMap::new();
    for r in 0..deg {
        rows_by_gate.entry(s.ctx.gate_name(&s.built.data.common, r)).or_default().push(r);
    }
    let gate_names: Vec<String> = rows_by_gate.keys().cloned().collect();
    let cc_cells = copy_constrained_cells(&s.ctx, &honest.representative_map);
    for k in 0..n_cell {
        let mut forced: Option<(usize, usize)> = None;
        if k % 3 == 1 && !cc_cells.is_empty() {
            forced = Some(cc_cells[rng.gen_range(0..cc_cells.len())]);
        }
        let row = match k % 5 {
            0 => 0,
            1 => deg - 1,
            2 => rng.gen_range(0..deg),
            _ => {
                let g = &gate_names[rng.gen_range(0..gate_names.len())];
                let v = &rows_by_gate[g];
                v[rng.gen_range(0..v.len())]
            }
        };
        let col = match rng.gen_range(0..4) {
            0 => rng.gen_range(0..nw),
            1 => rng.gen_range(0..s.ctx.num_routed),
            2 => rng.gen_range(0..8.min(nw)),
            _ => rng.gen_range(s.ctx.num_routed.min(nw - 1)..nw),
        };
        let (row, col) = forced.unwrap_or((row, col));
        let idx = row * nw + col;
        let v = base.values[idx].map(|x| x.to_canonical_u64()).unwrap_or(0);
        let nv = other_value(&mut rng, v);
        let mut w = base.clone();
        w.values[idx] = Some(F(nv));
        let gname = s.ctx.gate_name(&s.built.data.common, row);
        let detail = json!({"row": row, "column": col, "gate": gname, "old": v, "new": nv});
        let rep = match judge(&s, &w) {
            Ok(r) => r,
            Err(e) => {
                acc.c(&format!("cell_corruption.prover_view_refused: {}", msg_class(&e).chars().take(40).collect::<String>()));
                continue;
            }
        };
        let violating = !rep.satisfied();
        let site = if violating { format!("cell:{}:{}", if col < s.ctx.num_routed { "routed" } else { "advice" }, rep.class()) } else { format!("cell:benign:{gname}") };
        let (out, _) = prove_and_verify(&s.built, w);
        record(&mut acc, &s, "S0.public_prover", &site, violating, &out, case, detail);
    }
    // (c) negative-set inputs pushed through the public prove()
    let bset = gen::boundary_set();
    for _ in 0..if quick { 2 } else { 4 } {
        let alt: Vec<u64> = s.inputs.iter().map(|&v| if rng.gen_bool(0.5) { gen::canon_u64(&mut rng, &bset) } else { v }).collect();
        if let Err(u) = s.prog.eval(&alt) {
            let pw = circ::witness_for(&s.built, &alt);
            let res = catch(|| s.built.data.prove(pw));
            let out = match res {
                Ok(Ok(p)) => match catch(|| s.built.data.verify(p)) {
                    Ok(Ok(())) => Outcome::Accepted,
                    Ok(Err(e)) => Outcome::Rejected(e.to_string()),
                    Err(p) => Outcome::VerifierPanic(p.msg),
                },
                Ok(Err(e)) => Outcome::ProverErr(e.to_string()),
                Err(p) => Outcome::ProverPanic(p.msg),
            };
            let site = format!("negative_input:{}", circ::op_kind(&s.prog.ops[u.op_index]));
            record(&mut acc, &s, "S0.public_prove", &site, true, &out, case, json!({"inputs": alt, "violated": u.why, "op_index": u.op_index}));
        }
    }
    // (d) public-input link: honest proof, edited public inputs
    if let (Outcome::Accepted, Some(proof)) = prove_and_verify(&s.built, honest.clone()) {
        acc.c("honest_proofs_accepted");
        for i in 0..proof.public_inputs.len().min(3) {
            let mut q = proof.clone();
            q.public_inputs[i] = F(other_value(&mut rng, q.public_inputs[i].to_canonical_u64()));
            let out = match catch(|| s.built.data.verify(q)) {
                Ok(Ok(())) => Outcome::Accepted,
                Ok(Err(e)) => Outcome::Rejected(e.to_string()),
                Err(p) => Outcome::VerifierPanic(p.msg),
            };
            record(&mut acc, &s, "S0.public_prover", "public_input_edited_after_proving", true, &out, case, json!({"index": i}));
        }
    } else {
        acc.inconclusive.push("honest proof of a subject circuit not accepted (C01's business)".into());
    }
    if case % 16 == 0 {
        acc.sample = Some(json!({"part": "A", "circuit": s.desc, "corruptible_registers": regs.len()}));
    }
    acc
}

fn config_b(rng: &mut ChaCha8Rng, qdf: usize) -> CircuitConfig {
    let mut c = circ::fast_config();
    c.max_quotient_degree_factor = qdf;
    if qdf > 8 {
        c.fri_config.rate_bits = 4;
        c.fri_config.num_query_rounds = 6;
    }
    c.num_challenges = [1usize, 2, 3][rng.gen_range(0..3)];
    if rng.gen_bool(0.3) {
        c.zero_knowledge = true;
    }
    if rng.gen_bool(0.3) {
        c.fri_config.cap_height = rng.gen_range(0..3);
    }
    if rng.gen_bool(0.5) {
        c.num_routed_wires = [37usize, 50, 61, 75, 100, 123][rng.gen_range(0..6)];
        c.num_wires = c.num_wires.max(c.num_routed_wires + 20);
    }
    c
}

/// Part B: prover knobs (process-global), one case at a time in this process.
pub fn case_b<C: GenericConfig<D, F = F>>(seed: u64, case: u64, quick: bool) -> Acc {
    let mut acc = Acc::default();
    let mut rng = crate::mon::case_rng(seed, 2_002, case);
    let qdf = [8usize, 7, 9, 12, 7, 15, 16, 11][(case % 8) as usize]; // every circuit hashes its public inputs with a degree-7 gate, so 7 is the smallest admissible factor
    let opts = GenOpts { n_ops: rng.gen_range(5..if quick { 60 } else { 140 }), lookups: false, hashing: rng.gen_bool(0.4), extension: rng.gen_bool(0.5), max_table_len: 0, only_base2: false };
    let config = config_b(&mut rng, qdf);
    let mut pow_config = config.clone();
    let s = match subject::<C>(&mut rng, &opts, config, &mut acc) {
        Some(s) => s,
        None => return acc,
    };
    acc.c(&format!("subject_circuits.qdf{}", s.built.data.common.quotient_degree_factor));
    let honest = match honest_witness(&s, &s.inputs) {
        Ok(w) => w,
        Err(e) => {
            acc.inconclusive.push(format!("witness generation failed on the designated input ({e})"));
            return acc;
        }
    };
    match judge(&s, &honest) {
        Ok(r) if r.satisfied() => {}
        other => {
            acc.inconclusive.push(format!("satisfaction oracle rejects an honest witness: {:?}", other.map(|r| r.summary())));
            return acc;
        }
    }
    let nw = honest.num_wires;
    let deg = honest.degree;
    let id_map: Vec<usize> = (0..honest.representative_map.len()).collect();
    let base = explode(&honest, &id_map);
    let nch = s.built.data.common.config.num_challenges;
    let real_qdf = s.built.data.common.quotient_degree_factor;
    set_knobs(ProverKnobs::default());
    // control: the knob plumbing with default knobs is the honest prover
    let (out, _) = prove_and_verify(&s.built, honest.clone());
    if !matches!(out, Outcome::Accepted) {
        acc.inconclusive.push(format!("honest proof with default knobs not accepted: {}", out.label()));
        return acc;
    }
    acc.c("honest_proofs_accepted");

    // S5: violating witnesses with lenient truncation (needed when the factor is not a power of two)
    let lenient = ProverKnobs { lenient_truncation: true, ..Default::default() };
    let regs = corruptible_registers(&s, &honest);
    for k in 0..if quick { 3 } else { 6 } {
        set_knobs(lenient.clone());
        if k % 2 == 0 && !regs.is_empty() {
            let (r, opi) = pick_register(&mut rng, &s, &regs);
            let kind = circ::op_kind(&s.prog.ops[opi]);
            let rep = honest.representative_map[s.built.reg_targets[r].index(nw, deg)];
            let v = honest.values[rep].map(|x| x.to_canonical_u64()).unwrap_or(0);
            let mut w = honest.clone();
            w.values[rep] = Some(F(other_value(&mut rng, v)));
            if let Ok(rep) = judge(&s, &w) {
                if rep.satisfied() {
                    acc.fails.push((format!("gadget_output_not_pinned_by_any_gate_or_copy_constraint.{kind}"), json!({"case": case, "circuit": s.desc, "register": r})));
                    continue;
                }
            }
            let (out, _) = prove_and_verify(&s.built, w);
            record(&mut acc, &s, &format!("S5.lenient_truncation.qdf{real_qdf}"), &format!("class:{kind}"), true, &out, case, json!({"register": r}));
        } else {
            let row = rng.gen_range(0..deg);
            let col = rng.gen_range(0..nw);
            let idx = row * nw + col;
            let v = base.values[idx].map(|x| x.to_canonical_u64()).unwrap_or(0);
            let mut w = base.clone();
            w.values[idx] = Some(F(other_value(&mut rng, v)));
            let rep = match judge(&s, &w) {
                Ok(r) => r,
                Err(_) => continue,
            };
            let violating = !rep.satisfied();
            let site = if violating { format!("cell:{}", rep.class()) } else { "cell:benign".to_string() };
            let (out, _) = prove_and_verify(&s.built, w);
            record(&mut acc, &s, &format!("S5.lenient_truncation.qdf{real_qdf}"), &site, violating, &out, case, json!({"row": row, "column": col}));
        }
    }
    // S2: degenerate permutation accumulator, on the honest witness and on a copy-violating one
    let mut copy_violating: Option<PartitionWitness<F>> = None;
    for _ in 0..40 {
        let row = rng.gen_range(0..deg);
        let col = rng.gen_range(0..s.ctx.num_routed);
        let idx = row * nw + col;
        let v = base.values[idx].map(|x| x.to_canonical_u64()).unwrap_or(0);
        let mut w = base.clone();
        w.values[idx] = Some(F(other_value(&mut rng, v)));
        if let Ok(rep) = judge(&s, &w) {
            if !rep.copy.is_empty() && rep.gate.is_empty() {
                copy_violating = Some(w);
                break;
            }
        }
    }
    for z0 in [0u64, rng.gen_range(2..P)] {
        let zname = if z0 == 0 { "Z=0" } else { "Z=c" };
        set_knobs(ProverKnobs { z_init: Some(z0), lenient_truncation: true, ..Default::default() });
        let (out, _) = prove_and_verify(&s.built, honest.clone());
        record(&mut acc, &s, &format!("S2.degenerate_accumulator.{zname}"), "honest_witness", true, &out, case, json!({"z_init": z0}));
        if let Some(w) = &copy_violating {
            set_knobs(ProverKnobs { z_init: Some(z0), lenient_truncation: true, ..Default::default() });
            let (out, _) = prove_and_verify(&s.built, w.clone());
            record(&mut acc, &s, &format!("S2.degenerate_accumulator.{zname}"), "copy_violating_witness(gates satisfied)", true, &out, case, json!({"z_init": z0}));
        }
    }
    // S3: honest witness, quotient of one challenge altered
    let qlen = real_qdf * deg;
    for k in 0..nch {
        let coeff = match rng.gen_range(0..3) {
            0 => 0,
            1 => qlen - 1,
            _ => rng.gen_range(0..qlen),
        };
        set_knobs(ProverKnobs { quotient_edits: vec![(k, coeff, rng.gen_range(1..P))], ..Default::default() });
        let (out, _) = prove_and_verify(&s.built, honest.clone());
        record(&mut acc, &s, "S3.quotient_altered", &format!("challenge_index_{k}_of_{nch}"), true, &out, case, json!({"challenge": k, "coefficient": coeff}));
    }
    set_knobs(ProverKnobs::default());
    // S4: insufficient grinding (fresh circuit with a real proof-of-work requirement)
    pow_config.fri_config.proof_of_work_bits = rng.gen_range(8..16);
    pow_config.security_bits = 8 * 3 + pow_config.fri_config.proof_of_work_bits as usize;
    if let Ok(b2) = catch(|| circ::build::<C>(&s.prog, &pow_config)) {
        let s2 = Subject { prog: s.prog.clone(), inputs: s.inputs.clone(), config: pow_config.clone(), ctx: SatCtx::new(&b2.data.prover_only, &b2.data.common).unwrap(), built: b2, desc: json!({"program": s.prog.describe(), "config": circ::describe_config(&pow_config)}) };
        if let Ok(h2) = honest_witness(&s2, &s2.inputs) {
            for _ in 0..if quick { 2 } else { 4 } {
                set_knobs(ProverKnobs { force_pow_witness: Some(rng.gen_range(0..P)), ..Default::default() });
                let (out, proof) = prove_and_verify(&s2.built, h2.clone());
                set_knobs(ProverKnobs::default());
                // legitimate luck: the forced witness may really have enough leading zeros
                let legit = proof
                    .as_ref()
                    .and_then(|p| {
                        let pih = p.get_public_inputs_hash();
                        catch(|| p.get_challenges(pih, &s2.built.data.verifier_only.circuit_digest, &s2.built.data.common)).ok().and_then(|r| r.ok())
                    })
                    .map(|ch| ch.fri_challenges.fri_pow_response.to_canonical_u64().leading_zeros() >= pow_config.fri_config.proof_of_work_bits)
                    .unwrap_or(false);
                record(&mut acc, &s2, "S4.insufficient_grinding", if legit { "forced_witness_happens_to_be_valid" } else { "forced_pow_witness" }, !legit, &out, case, json!({"pow_bits": pow_config.fri_config.proof_of_work_bits}));
            }
        }
    }
    set_knobs(ProverKnobs::default());
    if case % 8 == 0 {
        acc.sample = Some(json!({"part": "B", "circuit": s.desc, "quotient_degree_factor": real_qdf}));
    }
    acc
}

pub fn merge(run: &mut Run, case: u64, acc: Acc, matrix: &mut BTreeMap<String, u64>) {
    run.evals(acc.evals);
    for (k, v) in acc.counters {
        run.count(&k, v);
    }
    for (k, v) in acc.matrix {
        *matrix.entry(k).or_insert(0) += v;
    }
    for k in acc.keys {
        run.nontrivial(k);
    }
    if let Some(s) = acc.sample {
        run.sample(s);
    }
    for w in acc.inconclusive {
        run.inconclusive(&w);
    }
    for (sig, d) in acc.fails {
        let sig = sig.replace(|c: char| c.is_ascii_digit(), "#");
        run.violation(&sig, case, d);
    }
}

pub fn run(tier: Tier) -> ! {
    let mut run = Run::new("C02", "fault_enumeration", tier);
    run.rule("subject = generated program (arithmetic, extension, splits, range checks, selection, random access, exponentiation, hashing) + satisfying input, built under configurations with quotient factor 8/16 (part A) and 7,8,9,11,12,15,16 (part B), zk on/off, 1..3 challenges. Attacks: (a) copy class of an op-output register set to another value (semantic oracle: output of a deterministic op changed with its inputs kept => violating); (b) one cell of the wire matrix changed through an identity representative map, classified by the row/class satisfaction oracle (benign changes must still verify); (c) inputs the interpreter rejects pushed through prove(); (d) public inputs edited after proving. Adversary strategies through the real prover: S0 public prover as is, S5 lenient quotient truncation, S2 accumulator started at 0 / at c on honest and on copy-violating witnesses, S3 quotient altered for one challenge index (every index), S4 forced proof-of-work witness. Oracle: a violating assignment never yields a proof that CircuitData::verify accepts. distinct = distinct (strategy, site class).");
    run.assume("interpreter (circ.rs) decides which op outputs are uniquely determined; satisfaction oracle (sat.rs: unfiltered gate constraints per row, copy classes from the builder's forest) classifies single-cell edits");
    run.assume("soundness holds against the enumerated strategies and sampled sites only, not against all provers");
    let quick = run.quick();
    let seed = run.seed;
    let n_a: u64 = run.pick(48, 1500);
    let n_b: u64 = run.pick(32, 1200);
    let mut matrix: BTreeMap<String, u64> = BTreeMap::new();
    let worker = Run::shard_spec().is_some();
    if !worker {
        let only = run.only_case;
        let outs: Vec<(u64, Acc)> = (0..n_a)
            .into_par_iter()
            .filter(|c| only.map(|o| o == *c).unwrap_or(true))
            .map(|case| (case, if case % 5 == 4 { case_a::<KeccakGoldilocksConfig>(seed, case, quick) } else { case_a::<PoseidonGoldilocksConfig>(seed, case, quick) }))
            .collect();
        for (case, acc) in outs {
            merge(&mut run, case, acc, &mut matrix);
        }
        run.set_extra("matrix_strategy_site_outcome", json!(matrix));
        run.run_shards(16, 1, 3 * 3600);
        run.count("part_a_circuits", n_a);
        run.count("part_b_circuits", n_b);
        if run.counter("honest_proofs_accepted") == 0 {
            run.inconclusive("no honest control proof was accepted");
        }
    } else {
        for case in 0..n_b {
            let case_id = 1_000_000 + case;
            if !Run::in_shard(case) || run.skip_case(case_id) {
                continue;
            }
            let acc = case_b::<PoseidonGoldilocksConfig>(seed, case, quick);
            merge(&mut run, case_id, acc, &mut matrix);
        }
        run.set_extra("matrix_strategy_site_outcome", json!(matrix));
    }
    run.count("rejected_proofs_also_presented_to_verifier_data_and_compressed_paths", ALT_PATH_CHECKS.load(std::sync::atomic::Ordering::Relaxed));
    run.count("accepted_only_by_an_alternative_path", ALT_PATH_ACCEPTS.load(std::sync::atomic::Ordering::Relaxed));
    run.finish()
}
