//! C06 — the in-circuit verifier accepts exactly what the native verifier accepts.
//!
//! Differential monitor: for every candidate inner proof (honest, tampered, structurally edited,
//! false statements, insufficient grinding, wrong verifier data)
//!     native  := inner.verify(p) is Ok
//!     circuit := assignment through set_proof_with_pis_target / set_verifier_data_target succeeds,
//!                witness generation of the outer circuit succeeds, and the satisfaction oracle
//!                finds every outer gate / copy constraint satisfied
//! and `native == circuit` is required. A sample of both classes goes through the full outer
//! prove / verify as well.

use std::collections::BTreeMap;

use plonky2::field::goldilocks_field::GoldilocksField as F;
use plonky2::field::types::PrimeField64;
use plonky2::iop::generator::generate_partial_witness;
use plonky2::iop::witness::{PartialWitness, PartitionWitness, WitnessWrite};
use plonky2::plonk::circuit_builder::CircuitBuilder;
use plonky2::plonk::circuit_data::{CircuitConfig, CircuitData, VerifierCircuitTarget, VerifierOnlyCircuitData};
use plonky2::plonk::config::{GenericConfig, Hasher, PoseidonGoldilocksConfig};
use plonky2::plonk::proof::{ProofWithPublicInputs, ProofWithPublicInputsTarget};
use plonky2::plonk::prover::prove_with_partition_witness;
use plonky2::util::timing::TimingTree;
use plonky2::verif_hooks::{set_knobs, ProverKnobs};
use rand::Rng;
use rand_chacha::ChaCha8Rng;
use serde_json::{json, Value};

use crate::circ::{self, GenOpts, Proven, D};
use crate::gen;
use crate::mon::{catch, msg_class, norm_loc, Run, Tier};
use crate::sat::{self, SatCtx};
use crate::tamper::{self, HashTamper, ListOp};

pub type PC = PoseidonGoldilocksConfig;
const P: u64 = 0xFFFF_FFFF_0000_0001;

#[derive(Default)]
pub struct Acc {
    pub evals: u64,
    pub counters: BTreeMap<String, u64>,
    pub matrix: BTreeMap<String, u64>,
    pub fails: Vec<(String, Value)>,
    pub inconclusive: Vec<String>,
    pub keys: Vec<String>,
    pub sample: Option<Value>,
}
impl Acc {
    pub fn c(&mut self, k: &str) {
        *self.counters.entry(k.to_string()).or_insert(0) += 1;
    }
}

pub struct Outer {
    pub data: CircuitData<F, PC, D>,
    pub pt: ProofWithPublicInputsTarget<D>,
    pub vdt: VerifierCircuitTarget,
    pub ctx: SatCtx,
}

pub fn build_outer(inner: &CircuitData<F, PC, D>, outer_config: CircuitConfig) -> Result<Outer, String> {
    let common = inner.common.clone();
    catch(move || {
        let mut b = CircuitBuilder::<F, D>::new(outer_config);
        let pt = b.add_virtual_proof_with_pis(&common);
        let vdt = b.add_virtual_verifier_data(common.config.fri_config.cap_height);
        b.verify_proof::<PC>(&pt, &vdt, &common);
        b.register_public_inputs(&pt.public_inputs);
        let data = b.build::<PC>();
        (data, pt, vdt)
    })
    .map_err(|p| format!("{} @ {}", p.msg, norm_loc(&p.loc)))
    .and_then(|(data, pt, vdt)| {
        let ctx = SatCtx::new(&data.prover_only, &data.common)?;
        Ok(Outer { data, pt, vdt, ctx })
    })
}

pub enum CircuitVerdict<'a> {
    Accepted(PartitionWitness<'a, F>),
    Rejected(String),
}

/// Library assignment routines + witness generation + satisfaction oracle.
pub fn circuit_verdict<'a>(outer: &'a Outer, p: &ProofWithPublicInputs<F, PC, D>, vd: &VerifierOnlyCircuitData<PC, D>) -> CircuitVerdict<'a> {
    let assigned = catch(|| -> anyhow::Result<PartialWitness<F>> {
        let mut pw = PartialWitness::<F>::new();
        pw.set_proof_with_pis_target(&outer.pt, p)?;
        pw.set_verifier_data_target(&outer.vdt, vd)?;
        Ok(pw)
    });
    judge_assignment(&outer.data, &outer.ctx, assigned)
}

/// Shared tail of the circuit verdict: assignment result -> witness generation -> satisfaction oracle.
pub fn judge_assignment<'a>(data: &'a CircuitData<F, PC, D>, ctx: &SatCtx, assigned: Result<anyhow::Result<PartialWitness<F>>, crate::mon::PanicRec>) -> CircuitVerdict<'a> {
    let pw = match assigned {
        Ok(Ok(pw)) => pw,
        Ok(Err(e)) => return CircuitVerdict::Rejected(format!("assignment refused: {}", msg_class(&e.to_string()).chars().take(60).collect::<String>())),
        Err(pn) => return CircuitVerdict::Rejected(format!("assignment panicked: {} @ {}", msg_class(&pn.msg).chars().take(50).collect::<String>(), norm_loc(&pn.loc))),
    };
    let w = match catch(|| generate_partial_witness(pw, &data.prover_only, &data.common)) {
        Ok(Ok(w)) => w,
        Ok(Err(e)) => return CircuitVerdict::Rejected(format!("witness generation: {}", msg_class(&e.to_string()).chars().take(50).collect::<String>())),
        Err(pn) => return CircuitVerdict::Rejected(format!("witness generation panicked: {} @ {}", msg_class(&pn.msg).chars().take(50).collect::<String>(), norm_loc(&pn.loc))),
    };
    match sat::prover_view(data, &w) {
        Ok((cols, pis)) => {
            let rep = ctx.check(&data.prover_only, &data.common, &cols, &pis);
            if rep.satisfied() {
                CircuitVerdict::Accepted(w)
            } else {
                CircuitVerdict::Rejected(format!("outer constraints violated: {}", rep.class()))
            }
        }
        Err(e) => CircuitVerdict::Rejected(format!("prover view: {e}")),
    }
}

fn native_verdict(inner: &CircuitData<F, PC, D>, vd: &VerifierOnlyCircuitData<PC, D>, p: &ProofWithPublicInputs<F, PC, D>) -> Result<(), String> {
    let common = inner.common.clone();
    let vdc = plonky2::plonk::circuit_data::VerifierCircuitData { verifier_only: vd.clone(), common };
    match catch(|| vdc.verify(p.clone())) {
        Ok(Ok(())) => Ok(()),
        Ok(Err(e)) => Err(format!("Err({})", msg_class(e.to_string().lines().next().unwrap_or("")).chars().take(60).collect::<String>())),
        Err(pn) => Err(format!("panic@{}", norm_loc(&pn.loc))),
    }
}

pub fn inner_config(rng: &mut ChaCha8Rng) -> CircuitConfig {
    let mut c = CircuitConfig::standard_recursion_config();
    c.fri_config.proof_of_work_bits = 10;
    c.fri_config.num_query_rounds = rng.gen_range(6..14);
    c.security_bits = c.fri_config.num_query_rounds * 3 + 10;
    match rng.gen_range(0..6) {
        0 => c.zero_knowledge = true,
        1 => {
            c.fri_config.cap_height = rng.gen_range(0..4);
            c.num_challenges = 3;
        }
        2 => c.fri_config.reduction_strategy = plonky2::fri::reduction_strategies::FriReductionStrategy::ConstantArityBits(3, 5),
        3 => c.fri_config.reduction_strategy = plonky2::fri::reduction_strategies::FriReductionStrategy::ConstantArityBits(2, 2),
        4 => {
            c.num_challenges = 1;
            c.fri_config.cap_height = 2;
        }
        _ => {}
    }
    c
}

struct Compare<'a> {
    acc: &'a mut Acc,
    desc: &'a Value,
    case: u64,
}

impl Compare<'_> {
    fn check(&mut self, class: &str, inner: &CircuitData<F, PC, D>, outer: &Outer, p: &ProofWithPublicInputs<F, PC, D>, vd: &VerifierOnlyCircuitData<PC, D>, detail: Value) -> bool {
        let native = native_verdict(inner, vd, p);
        let circuit = circuit_verdict(outer, p, vd);
        self.acc.evals += 1;
        self.acc.keys.push(class.to_string());
        let c_acc = matches!(circuit, CircuitVerdict::Accepted(_));
        let label = format!("{class} | native {} | circuit {}", match &native { Ok(()) => "ACCEPTS".to_string(), Err(e) => format!("rejects: {e}") }, match &circuit { CircuitVerdict::Accepted(_) => "ACCEPTS".to_string(), CircuitVerdict::Rejected(e) => format!("rejects: {e}") });
        *self.acc.matrix.entry(label.clone()).or_insert(0) += 1;
        if native.is_ok() != c_acc {
            let sig = if native.is_ok() { format!("recursion.circuit_rejects_what_native_accepts.{class}") } else { format!("recursion.circuit_accepts_what_native_rejects.{class}") };
            self.acc.fails.push((sig, json!({"case": self.case, "inner": self.desc, "verdicts": label, "detail": detail})));
        }
        native.is_ok()
    }
}

fn other_value(rng: &mut ChaCha8Rng, v: u64) -> u64 {
    let nv = match rng.gen_range(0..3) {
        0 => (v + 1) % P,
        1 => (P - v) % P,
        _ => rng.gen_range(0..P),
    };
    if nv == v {
        (v + 1) % P
    } else {
        nv
    }
}

pub fn case(seed: u64, case: u64, quick: bool) -> Acc
where
    <<PC as GenericConfig<D>>::Hasher as Hasher<F>>::Hash: HashTamper,
{
    let mut acc = Acc::default();
    let mut rng = crate::mon::case_rng(seed, 6_001, case);
    let bset = gen::boundary_set();
    let n_ops = match case % 4 {
        0 => rng.gen_range(2..12),
        1 => rng.gen_range(12..80),
        2 => rng.gen_range(80..250),
        _ => rng.gen_range(250..if quick { 500 } else { 1500 }),
    };
    let opts = GenOpts { n_ops, lookups: case % 3 == 1, hashing: rng.gen_bool(0.5), extension: true, max_table_len: 60, only_base2: false };
    let (prog, inputs) = circ::gen_program(&mut rng, &bset, &opts);
    let config = inner_config(&mut rng);
    set_knobs(ProverKnobs::default());
    let pr: Proven<PC> = match circ::make_proven::<PC>(prog, inputs, config.clone()) {
        Ok(p) => p,
        Err(e) => {
            acc.c(&format!("inner_not_built: {}", msg_class(&e).chars().take(60).collect::<String>()));
            return acc;
        }
    };
    let inner = &pr.built.data;
    let desc = json!({"program": pr.prog.describe(), "config": circ::describe_config(&config), "degree_bits": inner.common.degree_bits(), "lookups": !pr.prog.tables.is_empty()});
    let outer = match build_outer(inner, CircuitConfig::standard_recursion_config()) {
        Ok(o) => o,
        Err(e) => {
            acc.c(&format!("outer_not_built: {}", msg_class(&e).chars().take(60).collect::<String>()));
            return acc;
        }
    };
    acc.c("inner_shapes");
    acc.c(&format!("inner_degree_bits.{}", inner.common.degree_bits()));
    acc.c(&format!("outer_degree_bits.{}", outer.data.common.degree_bits()));
    acc.keys.push(format!("shape|{desc}"));
    let vd = inner.verifier_only.clone();
    let mut accepted_witness: Option<ProofWithPublicInputs<F, PC, D>> = None;
    let mut rejected_example: Option<ProofWithPublicInputs<F, PC, D>> = None;
    {
        let mut cmp = Compare { acc: &mut acc, desc: &desc, case };
        // honest proofs (designated input + alternatives the interpreter accepts)
        if !cmp.check("honest", inner, &outer, &pr.proof, &vd, json!({})) {
            cmp.acc.inconclusive.push("honest inner proof rejected natively (C01's business)".into());
            return acc;
        }
        accepted_witness = Some(pr.proof.clone());
        for _ in 0..2 {
            let alt: Vec<u64> = pr.inputs.iter().map(|&v| if rng.gen_bool(0.5) { gen::canon_u64(&mut rng, &bset) } else { v }).collect();
            if pr.prog.eval(&alt).is_ok() {
                if let Ok(Ok(p2)) = catch(|| inner.prove(circ::witness_for(&pr.built, &alt))) {
                    cmp.check("honest(alternative input)", inner, &outer, &p2, &vd, json!({}));
                }
            }
        }
        // tamper catalogue (stride sample over every element position)
        let slots = tamper::count_slots::<PC>(&pr.proof);
        let stride = (slots / if quick { 70 } else { 500 }).max(1);
        let mut k = rng.gen_range(0..stride);
        while k < slots {
            let (q, class) = tamper::tamper_at::<PC>(&pr.proof, k, (k % 5) as u8, rng.gen());
            cmp.check(&format!("tamper.{class}"), inner, &outer, &q, &vd, json!({"slot": k}));
            if rejected_example.is_none() && class == "openings.wires" {
                rejected_example = Some(q);
            }
            k += stride;
        }
        // structural edits
        for site in tamper::list_sites::<PC>(&pr.proof, 2) {
            for op in [ListOp::DropLast, ListOp::Empty, ListOp::DupLast] {
                let mut q = pr.proof.clone();
                if !tamper::apply_list_op::<PC>(&mut q, &site, op) {
                    continue;
                }
                let sname = format!("{site:?}").replace(|c: char| c.is_ascii_digit() || c == '(' || c == ')' || c == ',' || c == ' ', "");
                cmp.check(&format!("list.{sname}.{op:?}"), inner, &outer, &q, &vd, json!({}));
            }
        }
        // wrong verifier data
        {
            let mut vd2 = vd.clone();
            vd2.circuit_digest.bump(0, rng.gen());
            cmp.check("verifier_data.digest_altered", inner, &outer, &pr.proof, &vd2, json!({}));
            let mut vd3 = vd.clone();
            let i = rng.gen_range(0..vd3.constants_sigmas_cap.0.len());
            vd3.constants_sigmas_cap.0[i].bump(1, rng.gen());
            cmp.check("verifier_data.constants_sigmas_cap_entry_altered", inner, &outer, &pr.proof, &vd3, json!({"entry": i}));
            // a sibling circuit (one constant changed) with the same common data
            let mut prog2 = pr.prog.clone();
            prog2.ops.push(circ::Op::Const(987654321 + case));
            if let Ok(b2) = catch(|| circ::build::<PC>(&prog2, &config)) {
                if b2.data.common == inner.common {
                    cmp.check("verifier_data.of_sibling_circuit(same common data)", inner, &outer, &pr.proof, &b2.data.verifier_only, json!({}));
                }
            }
        }
        // public inputs edited
        for i in 0..pr.proof.public_inputs.len().min(2) {
            let mut q = pr.proof.clone();
            q.public_inputs[i] = F(other_value(&mut rng, q.public_inputs[i].to_canonical_u64()));
            cmp.check("public_input_edited", inner, &outer, &q, &vd, json!({"index": i}));
        }
        // false statements: violating inner assignments proved by the public prover (quotient factor 8)
        if let Ok(hw) = catch(|| generate_partial_witness(circ::witness_for(&pr.built, &pr.inputs), &inner.prover_only, &inner.common)) {
            if let Ok(hw) = hw {
                for _ in 0..if quick { 2 } else { 5 } {
                    let r = rng.gen_range(0..pr.built.reg_targets.len());
                    let rep = hw.representative_map[pr.built.reg_targets[r].index(hw.num_wires, hw.degree)];
                    let mut w2 = hw.clone();
                    let v = w2.values[rep].map(|x| x.to_canonical_u64()).unwrap_or(0);
                    w2.values[rep] = Some(F(other_value(&mut rng, v)));
                    if let Ok(Ok(p2)) = catch(|| prove_with_partition_witness(&inner.prover_only, &inner.common, w2, &mut TimingTree::default())) {
                        cmp.check("false_statement(inner witness corrupted)", inner, &outer, &p2, &vd, json!({"register": r}));
                    }
                }
                // insufficient grinding: everything else valid (prover knob)
                for _ in 0..2 {
                    set_knobs(ProverKnobs { force_pow_witness: Some(rng.gen_range(0..P)), ..Default::default() });
                    let res = catch(|| prove_with_partition_witness(&inner.prover_only, &inner.common, hw.clone(), &mut TimingTree::default()));
                    set_knobs(ProverKnobs::default());
                    if let Ok(Ok(p2)) = res {
                        cmp.check("forced_pow_witness", inner, &outer, &p2, &vd, json!({}));
                    }
                }
            }
        }
    }
    // ---- full outer prove / verify on a sample of both classes --------------------------------
    if case % if quick { 4 } else { 2 } == 0 {
        if let Some(p) = accepted_witness {
            if let CircuitVerdict::Accepted(w) = circuit_verdict(&outer, &p, &vd) {
                acc.evals += 1;
                match catch(|| prove_with_partition_witness(&outer.data.prover_only, &outer.data.common, w, &mut TimingTree::default())) {
                    Ok(Ok(op)) => {
                        acc.c("full_outer_proofs.valid_inner");
                        if op.public_inputs != p.public_inputs {
                            acc.fails.push(("recursion.outer_proof_does_not_reexpose_inner_public_inputs".into(), json!({"inner": desc})));
                        }
                        if !matches!(catch(|| outer.data.verify(op)), Ok(Ok(()))) {
                            acc.fails.push(("recursion.outer_proof_for_valid_inner_not_accepted".into(), json!({"inner": desc})));
                        }
                    }
                    other => acc.fails.push(("recursion.outer_proving_failed_for_valid_inner".into(), json!({"inner": desc, "err": format!("{:?}", other.map(|r| r.map(|_| ()).map_err(|e| e.to_string())).map_err(|p| p.msg))}))),
                }
            }
        }
        if let Some(q) = rejected_example {
            // natively rejected proof: whatever the outer proving API emits must not verify
            let pw = catch(|| -> anyhow::Result<PartialWitness<F>> {
                let mut pw = PartialWitness::<F>::new();
                pw.set_proof_with_pis_target(&outer.pt, &q)?;
                pw.set_verifier_data_target(&outer.vdt, &vd)?;
                Ok(pw)
            });
            if let Ok(Ok(pw)) = pw {
                acc.evals += 1;
                acc.c("full_outer_proofs.invalid_inner");
                let res = catch(|| outer.data.prove(pw));
                if let Ok(Ok(op)) = res {
                    if matches!(catch(|| outer.data.verify(op)), Ok(Ok(()))) {
                        acc.fails.push(("recursion.accepted_outer_proof_for_natively_rejected_inner".into(), json!({"inner": desc})));
                    }
                }
            }
        }
    }
    if case % 5 == 0 {
        acc.sample = Some(json!({"inner": desc, "outer_degree_bits": outer.data.common.degree_bits(), "outer_gates": outer.data.common.gates.len()}));
    }
    acc
}

pub fn merge(run: &mut Run, case: u64, acc: Acc, matrix: &mut BTreeMap<String, u64>) {
    run.evals(acc.evals);
    for (k, v) in acc.counters {
        run.count(&k, v);
    }
    for (k, v) in acc.matrix {
        *matrix.entry(k).or_insert(0) += v;
    }
    for k in acc.keys {
        run.nontrivial(k);
    }
    if let Some(s) = acc.sample {
        run.sample(s);
    }
    for w in acc.inconclusive {
        run.inconclusive(&w);
    }
    for (sig, d) in acc.fails {
        run.violation(&sig.replace(|c: char| c.is_ascii_digit(), "#"), case, d);
    }
}

pub fn run(tier: Tier) -> ! {
    let mut run = Run::new("C06", "exploration", tier);
    run.rule("inner circuits = generated programs (2..1500 ops, with/without lookups, hashing, extension arithmetic) under recursion-capable configurations (zk on/off, cap 0-4, 1-3 challenges, arity 2/3/4 schedules, 6-13 queries, 10 pow bits); one outer circuit per inner shape (verify_proof + re-exposed public inputs). Candidates per shape: honest proofs for several inputs, stride sample over every element of the proof x 5 replacement values, every list x {drop last, empty, duplicate last}, altered digest / cap entry / sibling circuit's verifier data, edited public inputs, proofs of violating inner assignments, proofs with a forced (insufficient) proof-of-work witness. For each: native verdict (VerifierCircuitData::verify) must equal the circuit verdict (library assignment routines + outer witness generation + row/copy satisfaction oracle on the outer wire matrix). A sample of accepting and rejecting candidates goes through full outer prove+verify (accepting: outer proof verifies and re-exposes the inner public inputs; rejecting: no accepted outer proof). distinct = inner shapes + candidate classes.");
    run.assume("satisfaction oracle (sat.rs) decides whether the generated outer witness satisfies the outer circuit");
    let quick = run.quick();
    let seed = run.seed;
    let n_cases: u64 = run.pick(16, 200);
    let mut matrix = BTreeMap::new();
    if Run::shard_spec().is_none() {
        run.run_shards(16, 1, 3 * 3600);
        if !Run::is_sub() {
            run.run_variants();
        }
        run.count("cases", n_cases);
        if run.counter("inner_shapes") == 0 {
            run.inconclusive("no inner shape could be built");
        }
    } else {
        for c in 0..n_cases {
            if !Run::in_shard(c) || run.skip_case(c) {
                continue;
            }
            let a = case(seed, c, quick);
            merge(&mut run, c, a, &mut matrix);
        }
        run.set_extra("matrix_class_native_circuit", json!(matrix));
    }
    run.finish()
}
