//! C13 — optimised hashing and the transcript sponge equal their specification.

use plonky2::field::extension::quadratic::QuadraticExtension;
use plonky2::field::goldilocks_field::GoldilocksField as F;
use plonky2::field::types::PrimeField64;
use plonky2::hash::hash_types::{BytesHash, HashOut};
use plonky2::hash::hashing::{hash_n_to_m_no_pad, PlonkyPermutation};
use plonky2::hash::keccak::{KeccakHash, KeccakPermutation};
use plonky2::hash::merkle_tree::MerkleCap;
use plonky2::hash::poseidon::{Poseidon, PoseidonHash, PoseidonPermutation, ALL_ROUND_CONSTANTS};
use plonky2::iop::challenger::{Challenger, RecursiveChallenger};
use plonky2::iop::generator::generate_partial_witness;
use plonky2::iop::target::Target;
use plonky2::iop::witness::{PartialWitness, Witness, WitnessWrite};
use plonky2::plonk::circuit_builder::CircuitBuilder;
use plonky2::plonk::circuit_data::CircuitConfig;
use plonky2::plonk::config::{Hasher, PoseidonGoldilocksConfig};
use rand::Rng;
use rayon::prelude::*;
use serde_json::{json, Value};

use crate::gen;
use crate::mon::{catch, norm_loc, Run, Tier};
use crate::poseidon_consts::{MDS_CIRC, MDS_DIAG, ROUND_CONSTANTS};
use crate::refmodel::*;

pub fn poseidon_ref() -> PoseidonRef {
    PoseidonRef { round_constants: ROUND_CONSTANTS.to_vec(), mds_circ: MDS_CIRC, mds_diag: MDS_DIAG }
}

const KAT: [([u64; 12], [u64; 12]); 3] = [
    (
        [0; 12],
        [
            0x3c18a9786cb0b359, 0xc4055e3364a246c3, 0x7953db0ab48808f4, 0xc71603f33a1144ca,
            0xd7709673896996dc, 0x46a84e87642f44ed, 0xd032648251ee0b3c, 0x1c687363b207df62,
            0xdf8565563e8045fe, 0x40f5b37ff4254dae, 0xd070f637b431067c, 0x1792b1c4342109d7,
        ],
    ),
    (
        [0, 1, 2, 3, 4, 5, 6, 7, 8, 9, 10, 11],
        [
            0xd64e1e3efc5b8e9e, 0x53666633020aaa47, 0xd40285597c6a8825, 0x613a4f81e81231d2,
            0x414754bfebd051f0, 0xcb1f8980294a023f, 0x6eb2a9e4d54a9d0f, 0x1902bc3af467e056,
            0xf045d5eafdc6021f, 0xe4150f77caaa3be5, 0xc9bfd01d39b50cce, 0x5c0a27fcb0e1459b,
        ],
    ),
    (
        [P - 1; 12],
        [
            0xbe0085cfc57a8357, 0xd95af71847d05c09, 0xcf55a13d33c1c953, 0x95803a74f4530e82,
            0xfcd99eb30a135df1, 0xe095905e913a3029, 0xde0392461b42919b, 0x7d3260e24e81d031,
            0x10d3d0465d9deaa0, 0xa87571083dfc2a47, 0xe18263681e9958f8, 0xe28e96f1ae5e60d3,
        ],
    ),
];

fn to_f(s: &[u64; 12]) -> [F; 12] {
    let mut o = [F(0); 12];
    for i in 0..12 {
        o[i] = F(s[i]);
    }
    o
}
fn canon12(s: &[F; 12]) -> [u64; 12] {
    let mut o = [0u64; 12];
    for i in 0..12 {
        o[i] = s[i].to_canonical_u64();
    }
    o
}

fn gen_state<R: Rng>(rng: &mut R, bset: &[u64]) -> [u64; 12] {
    let mode = rng.gen_range(0..8);
    let mut s = [0u64; 12];
    for x in s.iter_mut() {
        *x = match mode {
            0 => u64::MAX - rng.gen_range(0..4u64),               // all lanes near 2^64
            1 => P.wrapping_add(rng.gen_range(0..0xFFFF_FFFFu64)), // all lanes non-canonical
            2 => [0, 1, P - 1, P, u64::MAX][rng.gen_range(0..5)],
            3 => rng.gen_range(0..P),
            _ => gen::raw_u64(rng, bset),
        };
    }
    s
}

struct Fails(Vec<(String, Value)>);
impl Fails {
    fn push(&mut self, sig: &str, d: Value) {
        if self.0.len() < 6 {
            self.0.push((sig.to_string(), d));
        }
    }
}

/// Script op for challenger comparison.
#[derive(Clone, Debug)]
enum Op {
    Observe(Vec<u64>),
    ObserveHash([u64; 4]),
    ObserveCap(Vec<[u64; 4]>),
    ObserveExt([u64; 2]),
    Challenge,
    NChallenges(usize),
    GetHash,
    ExtChallenge,
    Compact,
}

fn gen_script<R: Rng>(rng: &mut R, bset: &[u64], canonical_only: bool) -> Vec<Op> {
    let n = rng.gen_range(1..40);
    let mut v = vec![];
    let val = |rng: &mut R| if canonical_only { gen::canon_u64(rng, bset) } else { gen::raw_u64(rng, bset) };
    for _ in 0..n {
        v.push(match rng.gen_range(0..12) {
            0 | 1 => Op::Observe((0..rng.gen_range(0..20)).map(|_| val(rng)).collect()),
            2 => Op::Observe(vec![val(rng)]),
            3 => Op::ObserveHash([val(rng), val(rng), val(rng), val(rng)]),
            4 => Op::ObserveCap((0..1 << rng.gen_range(0..3)).map(|_| [val(rng), val(rng), val(rng), val(rng)]).collect()),
            5 => Op::ObserveExt([val(rng), val(rng)]),
            6 | 7 => Op::Challenge,
            8 => Op::NChallenges(rng.gen_range(0..20)),
            9 => Op::GetHash,
            10 => Op::ExtChallenge,
            _ => Op::Compact,
        });
    }
    v
}

/// Runs a script on the model; returns all squeezed values (and compact states).
fn model_script(perm: &dyn Fn(&[u64; 12]) -> [u64; 12], script: &[Op]) -> Vec<u64> {
    let mut d = DuplexRef::new();
    let mut out = vec![];
    for op in script {
        match op {
            Op::Observe(xs) => xs.iter().for_each(|&x| d.observe(perm, x)),
            Op::ObserveHash(h) => h.iter().for_each(|&x| d.observe(perm, x)),
            Op::ObserveCap(c) => c.iter().flatten().for_each(|&x| d.observe(perm, x)),
            Op::ObserveExt(e) => e.iter().for_each(|&x| d.observe(perm, x)),
            Op::Challenge => out.push(d.challenge(perm)),
            Op::NChallenges(n) => (0..*n).for_each(|_| out.push(d.challenge(perm))),
            Op::GetHash => (0..4).for_each(|_| out.push(d.challenge(perm))),
            Op::ExtChallenge => (0..2).for_each(|_| out.push(d.challenge(perm))),
            Op::Compact => {
                // absorb pending inputs (if any), drop outputs, expose the state
                if !d.input.is_empty() {
                    let _ = d.challenge(perm);
                }
                d.output.clear();
                out.extend_from_slice(&d.state);
            }
        }
    }
    out
}

fn native_script<H: Hasher<F>>(script: &[Op], rechunk: Option<u64>) -> Vec<u64>
where
    H::Permutation: AsRef<[F]>,
{
    let mut c = Challenger::<F, H>::new();
    let mut out = vec![];
    let mut flip = rechunk.unwrap_or(0);
    for op in script {
        match op {
            Op::Observe(xs) => {
                let fs: Vec<F> = xs.iter().map(|&x| F(x)).collect();
                if rechunk.is_some() {
                    // same elements, different API chunking
                    let mut i = 0;
                    while i < fs.len() {
                        flip = flip.wrapping_mul(6364136223846793005).wrapping_add(1442695040888963407);
                        let step = 1 + (flip >> 60) as usize % 5;
                        let end = (i + step).min(fs.len());
                        if step == 1 {
                            c.observe_element(fs[i]);
                        } else {
                            c.observe_elements(&fs[i..end]);
                        }
                        i = end;
                    }
                } else {
                    c.observe_elements(&fs);
                }
            }
            Op::ObserveHash(h) => {
                if rechunk.is_some() {
                    h.iter().for_each(|&x| c.observe_element(F(x)));
                } else {
                    c.observe_hash::<PoseidonHash>(HashOut { elements: [F(h[0]), F(h[1]), F(h[2]), F(h[3])] });
                }
            }
            Op::ObserveCap(cap) => {
                if rechunk.is_some() {
                    let flat: Vec<F> = cap.iter().flatten().map(|&x| F(x)).collect();
                    c.observe_elements(&flat);
                } else {
                    let cap: MerkleCap<F, PoseidonHash> = MerkleCap(cap.iter().map(|h| HashOut { elements: [F(h[0]), F(h[1]), F(h[2]), F(h[3])] }).collect());
                    c.observe_cap::<PoseidonHash>(&cap);
                }
            }
            Op::ObserveExt(e) => {
                if rechunk.is_some() {
                    c.observe_element(F(e[0]));
                    c.observe_element(F(e[1]));
                } else {
                    c.observe_extension_element::<2>(&QuadraticExtension([F(e[0]), F(e[1])]));
                }
            }
            Op::Challenge => out.push(c.get_challenge().to_canonical_u64()),
            Op::NChallenges(n) => {
                if rechunk.is_some() {
                    (0..*n).for_each(|_| out.push(c.get_challenge().to_canonical_u64()));
                } else {
                    out.extend(c.get_n_challenges(*n).iter().map(|x| x.to_canonical_u64()));
                }
            }
            Op::GetHash => out.extend(c.get_hash().elements.iter().map(|x| x.to_canonical_u64())),
            Op::ExtChallenge => {
                let e: QuadraticExtension<F> = c.get_extension_challenge::<2>();
                out.extend(e.0.iter().map(|x| x.to_canonical_u64()));
            }
            Op::Compact => {
                let st = c.compact();
                out.extend(st.as_ref().iter().map(|x| x.to_canonical_u64()));
            }
        }
    }
    out
}

fn keccak_perm_ref(s: &[u64; 12]) -> [u64; 12] {
    let mut bytes = vec![];
    for x in s {
        bytes.extend_from_slice(&canon(*x).to_le_bytes());
    }
    let mut out = vec![];
    let mut cur = bytes;
    while out.len() < 12 {
        let h = keccak256(&cur);
        for w in h.chunks(8) {
            let mut b = [0u8; 8];
            b.copy_from_slice(w);
            let v = u64::from_le_bytes(b);
            if v < P && out.len() < 12 {
                out.push(v);
            }
        }
        cur = h.to_vec();
    }
    let mut o = [0u64; 12];
    o.copy_from_slice(&out);
    o
}

/// RecursiveChallenger evaluated by witness generation vs the native challenger on one script.
fn recursive_script(script: &[Op]) -> Result<(Vec<u64>, Vec<u64>), String> {
    const D: usize = 2;
    type C = PoseidonGoldilocksConfig;
    let config = CircuitConfig::standard_recursion_config();
    let mut builder = CircuitBuilder::<F, D>::new(config);
    let mut rc = RecursiveChallenger::<F, PoseidonHash, D>::new(&mut builder);
    let mut inputs: Vec<(Target, u64)> = vec![];
    let mut outs: Vec<Target> = vec![];
    let obs = |builder: &mut CircuitBuilder<F, D>, rc: &mut RecursiveChallenger<F, PoseidonHash, D>, x: u64, inputs: &mut Vec<(Target, u64)>| {
        let t = builder.add_virtual_target();
        inputs.push((t, x));
        rc.observe_element(t);
    };
    for op in script {
        match op {
            Op::Observe(xs) => xs.iter().for_each(|&x| obs(&mut builder, &mut rc, x, &mut inputs)),
            Op::ObserveHash(h) => h.iter().for_each(|&x| obs(&mut builder, &mut rc, x, &mut inputs)),
            Op::ObserveCap(c) => c.iter().flatten().for_each(|&x| obs(&mut builder, &mut rc, x, &mut inputs)),
            Op::ObserveExt(e) => e.iter().for_each(|&x| obs(&mut builder, &mut rc, x, &mut inputs)),
            Op::Challenge => outs.push(rc.get_challenge(&mut builder)),
            Op::NChallenges(n) => outs.extend(rc.get_n_challenges(&mut builder, *n)),
            Op::GetHash => outs.extend(rc.get_hash(&mut builder).elements),
            Op::ExtChallenge => outs.extend(rc.get_extension_challenge(&mut builder).0),
            Op::Compact => {
                let st = rc.compact(&mut builder);
                outs.extend(st.as_ref().iter().copied());
            }
        }
    }
    let data = builder.build::<C>();
    let mut pw = PartialWitness::new();
    for (t, x) in &inputs {
        pw.set_target(*t, F(canon(*x))).map_err(|e| e.to_string())?;
    }
    let w = generate_partial_witness(pw, &data.prover_only, &data.common).map_err(|e| e.to_string())?;
    let got: Vec<u64> = outs.iter().map(|&t| w.get_target(t).to_canonical_u64()).collect();
    let native = native_script::<PoseidonHash>(script, None);
    Ok((got, native))
}

pub fn run(tier: Tier) -> ! {
    let mut run = Run::new("C13", "exploration", tier);
    run.rule("12-lane states drawn from boundary-biased 64-bit representations (canonical, the non-canonical band, all-lanes-near-2^64) are permuted by the crate and by a textbook round-by-round Poseidon over u128 arithmetic using a pinned copy of the published constants; sponge functions for every input length 0..=40; challenger scripts = random interleavings of observe/squeeze calls, replayed with a different API chunking. A case is non-trivial when it contains a non-canonical or boundary lane, crosses a rate boundary, or interleaves absorb and squeeze; distinct cases are counted by hash.");
    run.assume("reference permutation = harness code + pinned constants (poseidon_consts.rs), itself checked against the three published known-answer vectors on every run");
    let bset = gen::boundary_set();
    let pref = poseidon_ref();
    let perm = |s: &[u64; 12]| pref.permute(s);
    let mut fails = Fails(vec![]);
    let bh0 = plonky2_util::verif_hooks::BRANCH_HINTS.load(std::sync::atomic::Ordering::Relaxed);

    // 0. reference self-check and constant tables
    for (i, (inp, out)) in KAT.iter().enumerate() {
        if &perm(inp) != out {
            run.inconclusive(&format!("reference Poseidon fails known-answer vector {i}: harness defect"));
        }
        run.eval();
        let got = canon12(&F::poseidon(to_f(inp)));
        if &got != out {
            fails.push("poseidon.kat", json!({"vector": i, "got": got.to_vec()}));
        }
    }
    run.eval();
    if ALL_ROUND_CONSTANTS[..] != ROUND_CONSTANTS[..] {
        let idx = (0..360).find(|&i| ALL_ROUND_CONSTANTS[i] != ROUND_CONSTANTS[i]).unwrap();
        fails.push("poseidon.round_constants_differ_from_published", json!({"index": idx, "crate": ALL_ROUND_CONSTANTS[idx], "published": ROUND_CONSTANTS[idx]}));
    }
    if <F as Poseidon>::MDS_MATRIX_CIRC != MDS_CIRC || <F as Poseidon>::MDS_MATRIX_DIAG != MDS_DIAG {
        fails.push("poseidon.mds_differs_from_published", json!({}));
    }

    // 1. permutation on many states
    let n_states: u64 = run.n(48, 1_500_000, 30_000_000);
    let seed = run.seed;
    let chunk = if run.micro() { 12 } else { 5_000u64 };
    let results: Vec<(u64, u64, Vec<(String, Value)>, Option<Value>)> = (0..n_states / chunk)
        .into_par_iter()
        .map(|ci| {
            let pref = poseidon_ref();
            let mut rng = crate::mon::case_rng(seed, 13_001, ci);
            let mut evals = 0u64;
            let mut nontrivial = 0u64;
            let mut fails = vec![];
            let mut sample = None;
            for k in 0..chunk {
                let s = gen_state(&mut rng, &bset);
                let want = pref.permute(&s);
                evals += 1;
                if s.iter().any(|&x| x >= P || x == 0 || x == P - 1) {
                    nontrivial += 1;
                }
                match catch(|| F::poseidon(to_f(&s))) {
                    Ok(got) => {
                        if canon12(&got) != want && fails.len() < 3 {
                            fails.push(("poseidon.permutation".to_string(), json!({"state": s.iter().map(|x| format!("0x{x:016x}")).collect::<Vec<_>>(), "got": canon12(&got).to_vec(), "want": want.to_vec()})));
                        }
                    }
                    Err(p) => {
                        if fails.len() < 3 {
                            fails.push((format!("poseidon.permutation.panic@{}", norm_loc(&p.loc)), json!({"state": s.iter().map(|x| format!("0x{x:016x}")).collect::<Vec<_>>(), "panic": p.msg})));
                        }
                    }
                }
                if k % 16 == 0 {
                    evals += 3;
                    let naive = catch(|| F::poseidon_naive(to_f(&s)));
                    if naive.map(|g| canon12(&g) != want).unwrap_or(true) && fails.len() < 3 {
                        fails.push(("poseidon.naive_variant".to_string(), json!({"state": s.to_vec()})));
                    }
                    let mds = catch(|| F::mds_layer(&to_f(&s)));
                    if mds.map(|g| canon12(&g) != pref.mds(&{ let mut c = s; c.iter_mut().for_each(|x| *x = canon(*x)); c })).unwrap_or(true) && fails.len() < 3 {
                        fails.push(("poseidon.mds_layer".to_string(), json!({"state": s.iter().map(|x| format!("0x{x:016x}")).collect::<Vec<_>>()})));
                    }
                    let mut p = PoseidonPermutation::<F>::new(to_f(&s));
                    p.permute();
                    if p.as_ref().iter().map(|x| x.to_canonical_u64()).collect::<Vec<_>>() != want.to_vec() && fails.len() < 3 {
                        fails.push(("poseidon.PoseidonPermutation.permute".to_string(), json!({"state": s.to_vec()})));
                    }
                }
                if k == 0 && ci == 0 {
                    sample = Some(json!({"state": s.iter().map(|x| format!("0x{x:016x}")).collect::<Vec<_>>(), "reference_out": want.to_vec()}));
                }
            }
            (evals, nontrivial, fails, sample)
        })
        .collect();
    for (e, n, f, s) in results {
        run.evals(e);
        run.nontrivial_bulk(n);
        for (sig, d) in f {
            fails.push(&sig, d);
        }
        if let Some(s) = s {
            run.sample(s);
        }
    }
    run.count("permutation_states", n_states);

    // 2. sponge functions, every length 0..=40, several value classes
    {
        let mut rng = run.rng(13_002, 0);
        let micro = run.micro();
        for rep in 0..run.n(1, 6, 200) {
            for len in 0..=40usize {
                if micro && !(len % 4 == 0 || len == 7 || len == 9) {
                    continue;
                }
                let xs: Vec<u64> = (0..len).map(|_| if rep % 2 == 0 { gen::canon_u64(&mut rng, &bset) } else { gen::raw_u64(&mut rng, &bset) }).collect();
                let fs: Vec<F> = xs.iter().map(|&x| F(x)).collect();
                let want4 = sponge_hash_no_pad(&perm, &xs, 4);
                run.eval();
                run.nontrivial(("sponge", len, rep));
                let got = PoseidonHash::hash_no_pad(&fs);
                if got.elements.iter().map(|x| x.to_canonical_u64()).collect::<Vec<_>>() != want4 {
                    fails.push("sponge.hash_no_pad", json!({"len": len, "input": xs}));
                }
                // hash_pad = pad10*1 then hash_no_pad
                let mut padded = xs.clone();
                padded.push(1);
                while (padded.len() + 1) % 8 != 0 {
                    padded.push(0);
                }
                padded.push(1);
                run.eval();
                let got = <PoseidonHash as Hasher<F>>::hash_pad(&fs);
                if got.elements.iter().map(|x| x.to_canonical_u64()).collect::<Vec<_>>() != sponge_hash_no_pad(&perm, &padded, 4) {
                    fails.push("sponge.hash_pad", json!({"len": len, "input": xs}));
                }
                // hash_or_noop
                run.eval();
                let got = <PoseidonHash as Hasher<F>>::hash_or_noop(&fs);
                let want: Vec<u64> = if len <= 4 {
                    let mut v: Vec<u64> = xs.iter().map(|&x| canon(x)).collect();
                    v.resize(4, 0);
                    v
                } else {
                    want4.clone()
                };
                if got.elements.iter().map(|x| x.to_canonical_u64()).collect::<Vec<_>>() != want {
                    fails.push("sponge.hash_or_noop", json!({"len": len, "input": xs}));
                }
                // n-to-m for several output counts
                for m in [1usize, 4, 7, 8, 9, 16, 17, 20] {
                    if micro && !(m == 4 || m == 9) {
                        continue;
                    }
                    run.eval();
                    let got = hash_n_to_m_no_pad::<F, PoseidonPermutation<F>>(&fs, m);
                    if got.iter().map(|x| x.to_canonical_u64()).collect::<Vec<_>>() != sponge_hash_no_pad(&perm, &xs, m) {
                        fails.push("sponge.hash_n_to_m_no_pad", json!({"len": len, "m": m, "input": xs}));
                    }
                }
                if len == 8 {
                    let l = [xs[0], xs[1], xs[2], xs[3]];
                    let r = [xs[4], xs[5], xs[6], xs[7]];
                    run.eval();
                    let got = <PoseidonHash as Hasher<F>>::two_to_one(HashOut { elements: [F(l[0]), F(l[1]), F(l[2]), F(l[3])] }, HashOut { elements: [F(r[0]), F(r[1]), F(r[2]), F(r[3])] });
                    if got.elements.iter().map(|x| x.to_canonical_u64()).collect::<Vec<_>>() != two_to_one(&perm, &l, &r).to_vec() {
                        fails.push("sponge.two_to_one", json!({"l": l, "r": r}));
                    }
                }
            }
        }
    }

    // 3. challenger scripts vs duplex model, and re-chunked replays
    {
        let n_scripts = run.n(6, 10_000, 200_000);
        let res: Vec<(u64, Vec<(String, Value)>, Option<Value>)> = (0..n_scripts)
            .into_par_iter()
            .map(|i| {
                let pref = poseidon_ref();
                let perm = |s: &[u64; 12]| pref.permute(s);
                let mut rng = crate::mon::case_rng(seed, 13_003, i);
                let script = gen_script(&mut rng, &bset, false);
                let want = model_script(&perm, &script);
                let mut fails = vec![];
                let got = catch(|| native_script::<PoseidonHash>(&script, None));
                match got {
                    Ok(g) if g == want => {}
                    Ok(g) => fails.push(("challenger.differs_from_duplex_model".to_string(), json!({"script": format!("{script:?}"), "got": g, "want": want}))),
                    Err(p) => fails.push((format!("challenger.panic@{}", norm_loc(&p.loc)), json!({"script": format!("{script:?}"), "panic": p.msg}))),
                }
                let got2 = catch(|| native_script::<PoseidonHash>(&script, Some(i + 1)));
                if got2.map(|g| g != want).unwrap_or(true) {
                    fails.push(("challenger.chunking_dependent".to_string(), json!({"script": format!("{script:?}")})));
                }
                let sample = if i == 0 { Some(json!({"challenger_script": format!("{script:?}"), "outputs": want.len()})) } else { None };
                (2, fails, sample)
            })
            .collect();
        for (e, f, s) in res {
            run.evals(e);
            for (sig, d) in f {
                fails.push(&sig, d);
            }
            if let Some(s) = s {
                run.sample(s);
            }
        }
        for i in 0..n_scripts {
            run.nontrivial(("script", i));
        }
        run.count("challenger_scripts", n_scripts);
    }

    // 4. RecursiveChallenger by witness generation
    {
        // (circuit building is out of an interpreter's reach: not part of the micro tier)
        let n = run.n(0, 48, 600);
        let res: Vec<Vec<(String, Value)>> = (0..n)
            .into_par_iter()
            .map(|i| {
                let mut rng = crate::mon::case_rng(seed, 13_004, i);
                let script = gen_script(&mut rng, &bset, true);
                let mut fails = vec![];
                match catch(|| recursive_script(&script)) {
                    Ok(Ok((got, native))) => {
                        if got != native {
                            fails.push(("recursive_challenger.differs_from_native".to_string(), json!({"script": format!("{script:?}"), "circuit": got, "native": native})));
                        }
                    }
                    Ok(Err(e)) => fails.push(("recursive_challenger.error".to_string(), json!({"script": format!("{script:?}"), "err": e}))),
                    Err(p) => fails.push((format!("recursive_challenger.panic@{}", norm_loc(&p.loc)), json!({"script": format!("{script:?}"), "panic": p.msg}))),
                }
                fails
            })
            .collect();
        for f in res {
            run.eval();
            for (sig, d) in f {
                fails.push(&sig, d);
            }
        }
        run.count("recursive_challenger_scripts", n);
    }

    // 5. Keccak: reference self-check, permutation, hasher, challenger
    {
        let empty = keccak256(&[]);
        let expect_prefix = [0xc5u8, 0xd2, 0x46, 0x01, 0x86, 0xf7, 0x23, 0x3c];
        if empty[..8] != expect_prefix {
            run.inconclusive("reference Keccak-256 fails the empty-string known answer: harness defect");
        }
        let mut rng = run.rng(13_005, 0);
        for _ in 0..run.n(4, 300, 20_000) {
            let s = gen_state(&mut rng, &bset);
            run.eval();
            let mut p = KeccakPermutation::<F>::new(to_f(&s));
            p.permute();
            let got: Vec<u64> = p.as_ref().iter().map(|x| x.to_canonical_u64()).collect();
            if got != keccak_perm_ref(&s).to_vec() {
                fails.push("keccak.permutation", json!({"state": s.to_vec()}));
            }
        }
        for len in 0..=40usize {
            let xs: Vec<u64> = (0..len).map(|_| gen::raw_u64(&mut rng, &bset)).collect();
            let fs: Vec<F> = xs.iter().map(|&x| F(x)).collect();
            let mut bytes = vec![];
            xs.iter().for_each(|&x| bytes.extend_from_slice(&canon(x).to_le_bytes()));
            run.eval();
            let got = <KeccakHash<25> as Hasher<F>>::hash_no_pad(&fs);
            if got.0[..] != keccak256(&bytes)[..25] {
                fails.push("keccak.hash_no_pad", json!({"len": len}));
            }
            run.eval();
            let got = <KeccakHash<25> as Hasher<F>>::hash_or_noop(&fs);
            let want: Vec<u8> = if len * 8 <= 25 {
                let mut v = bytes.clone();
                v.resize(25, 0);
                v
            } else {
                keccak256(&bytes)[..25].to_vec()
            };
            if got.0[..] != want[..] {
                fails.push("keccak.hash_or_noop", json!({"len": len}));
            }
        }
        for _ in 0..run.n(3, 50, 50) {
            let l: [u8; 25] = rng.gen();
            let r: [u8; 25] = rng.gen();
            let mut cat = l.to_vec();
            cat.extend_from_slice(&r);
            run.eval();
            let got = <KeccakHash<25> as Hasher<F>>::two_to_one(BytesHash(l), BytesHash(r));
            if got.0[..] != keccak256(&cat)[..25] {
                fails.push("keccak.two_to_one", json!({}));
            }
        }
        for i in 0..run.n(3, 100, 3_000) {
            let mut rng = run.rng(13_006, i);
            let script: Vec<Op> = gen_script(&mut rng, &bset, false);
            let want = model_script(&keccak_perm_ref, &script);
            run.eval();
            let got = catch(|| native_script::<KeccakHash<25>>(&script, Some(i)));
            if got.map(|g| g != want).unwrap_or(true) {
                fails.push("keccak.challenger.differs_from_duplex_model", json!({"script": format!("{script:?}")}));
            }
        }
    }

    let bh1 = plonky2_util::verif_hooks::BRANCH_HINTS.load(std::sync::atomic::Ordering::Relaxed);
    run.set_extra("h1_branch_hint_executions", json!(bh1 - bh0));
    run.set_extra("h1_false_assumes", json!(plonky2_util::verif_hooks::FALSE_ASSUMES.load(std::sync::atomic::Ordering::Relaxed)));
    for (sig, d) in fails.0 {
        run.violation(&sig, 0, d);
    }
    if !Run::is_sub() {
        run.run_variants();
    }
    run.finish()
}
