//! C09 — STARK proofs are accepted exactly for traces that satisfy the constraints.
//!
//! Data-driven STARK family (stk.rs) with an independent row predicate. Positive: satisfying traces
//! prove and verify. Negative (prover knobs H4: debug constraint check skipped, lenient quotient
//! truncation): single-cell corruptions at first / last / wrap-around / interior rows, wrong public
//! inputs, and the tamper catalogue on accepted proofs — expected verdict = predicate verdict.

use std::collections::BTreeMap;

use plonky2::field::goldilocks_field::GoldilocksField as F;
use plonky2::plonk::config::{GenericConfig, PoseidonGoldilocksConfig};
use plonky2::util::timing::TimingTree;
use rand::Rng;
use serde_json::{json, Value};
use starky::config::StarkConfig;
use starky::proof::StarkProofWithPublicInputs;
use starky::prover::prove;
use starky::verif_hooks::{set_knobs, StarkProverKnobs};
use starky::verifier::verify_stark_proof;

use crate::mon::{catch, msg_class, norm_loc, Run, Tier};
use crate::stk::{self, GenStark, Generated, D, P};
use crate::tamper;

type C = PoseidonGoldilocksConfig;

#[derive(Default)]
pub struct Acc {
    pub evals: u64,
    pub counters: BTreeMap<String, u64>,
    pub matrix: BTreeMap<String, u64>,
    pub fails: Vec<(String, Value)>,
    pub inconclusive: Vec<String>,
    pub keys: Vec<String>,
    pub sample: Option<Value>,
}
impl Acc {
    pub fn c(&mut self, k: &str) {
        *self.counters.entry(k.to_string()).or_insert(0) += 1;
    }
    pub fn m(&mut self, class: &str, outcome: &str) {
        *self.matrix.entry(format!("{class} | {outcome}")).or_insert(0) += 1;
        self.keys.push(class.to_string());
    }
}

pub fn is_stark_refusal(msg: &str) -> bool {
    ["FRI total reduction arity is too large", "degree_bits >= arity_bits", "The degree of the Stark constraints must be", "cap_height=", "should be at most", "attempt to subtract with overflow"].iter().any(|m| msg.contains(m))
}

pub enum Out {
    Refused(String),
    Rejected(String),
    Accepted,
}
impl Out {
    pub fn label(&self) -> String {
        match self {
            Out::Refused(m) => format!("prover refused ({})", msg_class(m).chars().take(60).collect::<String>()),
            Out::Rejected(m) => format!("verifier {}", msg_class(m).chars().take(70).collect::<String>()),
            Out::Accepted => "ACCEPTED".into(),
        }
    }
}

pub fn stark_prove<const COLS: usize, const PIS: usize>(stark: &GenStark<COLS, PIS>, config: &StarkConfig, trace: &[Vec<u64>], pis: &[u64]) -> Result<StarkProofWithPublicInputs<F, C, D>, String> {
    let pv = stk::to_poly_values(trace);
    let pif: Vec<F> = pis.iter().map(|x| F(*x)).collect();
    match catch(|| prove::<F, C, GenStark<COLS, PIS>, D>(stark.clone(), config, pv, &pif, None, &mut TimingTree::default())) {
        Ok(Ok(p)) => Ok(p),
        Ok(Err(e)) => Err(format!("error: {e}")),
        Err(p) => Err(format!("panic: {} @ {}", p.msg, norm_loc(&p.loc))),
    }
}

pub fn stark_verify<const COLS: usize, const PIS: usize>(stark: &GenStark<COLS, PIS>, config: &StarkConfig, proof: StarkProofWithPublicInputs<F, C, D>) -> Result<(), String> {
    match catch(|| verify_stark_proof::<F, C, GenStark<COLS, PIS>, D>(stark.clone(), proof, config, None)) {
        Ok(Ok(())) => Ok(()),
        Ok(Err(e)) => Err(format!("Err({})", e.to_string().lines().next().unwrap_or(""))),
        Err(p) => Err(format!("panic@{}: {}", norm_loc(&p.loc), p.msg)),
    }
}

fn attempt<const COLS: usize, const PIS: usize>(stark: &GenStark<COLS, PIS>, config: &StarkConfig, trace: &[Vec<u64>], pis: &[u64]) -> Out {
    match stark_prove(stark, config, trace, pis) {
        Err(e) => Out::Refused(e),
        Ok(p) => match stark_verify(stark, config, p) {
            Ok(()) => Out::Accepted,
            Err(e) => Out::Rejected(e),
        },
    }
}

fn judge(acc: &mut Acc, class: &str, violating: bool, out: &Out, ctx: &Value, detail: Value) {
    acc.evals += 1;
    acc.m(class, &out.label());
    let accepted = matches!(out, Out::Accepted);
    if violating && accepted {
        acc.fails.push((format!("stark.accepted_proof_for_violating_trace.{class}"), json!({"ctx": ctx, "detail": detail})));
    }
    if !violating && !accepted {
        acc.fails.push((format!("stark.satisfying_trace_not_accepted.{class}: {}", out.label()), json!({"ctx": ctx, "detail": detail})));
    }
}

fn other_value(rng: &mut rand_chacha::ChaCha8Rng, v: u64) -> u64 {
    let nv = match rng.gen_range(0..4) {
        0 => (v + 1) % P,
        1 => {
            if v == 0 {
                1
            } else {
                0
            }
        }
        2 => (P - v) % P,
        _ => rng.gen_range(0..P),
    };
    if nv == v {
        (v + 1) % P
    } else {
        nv
    }
}

pub fn case<const COLS: usize, const PIS: usize>(seed: u64, case: u64, quick: bool) -> Acc {
    let mut acc = Acc::default();
    let mut rng = crate::mon::case_rng(seed, 9_001, case);
    let degree = [0usize, 1, 2, 2, 3, 3, 5, 4][rng.gen_range(0..8)];
    let log_n = rng.gen_range(2..=if quick { 7 } else { 10 });
    let Generated { mut spec, trace, pis } = stk::gen_family(&mut rng, COLS, PIS, degree.min(5), log_n);
    if degree == 4 {
        // declared degree above the actual one: quotient factor 3 (not a power of two)
        spec.degree = 4;
    }
    let config = stk::gen_stark_config(&mut rng, spec.degree, true);
    let stark = GenStark::<COLS, PIS>::new(spec.clone());
    let ctx = json!({"case": case, "stark": spec.describe(), "log_n": log_n, "config": stk::describe_stark_config(&config)});
    acc.keys.push(format!("{}|n{}|{}", spec.name, log_n, stk::describe_stark_config(&config)));
    // the generated trace must satisfy the independent predicate
    let bad = spec.check_trace(&trace, &pis);
    if !bad.is_empty() {
        acc.inconclusive.push(format!("harness: generated trace violates its own spec at {:?}", bad.first()));
        return acc;
    }
    set_knobs(StarkProverKnobs::default());
    // ---- positive ----------------------------------------------------------------------------
    let proof = match stark_prove(&stark, &config, &trace, &pis) {
        Ok(p) => p,
        Err(e) => {
            if is_stark_refusal(&e) {
                acc.c(&format!("config_refused: {}", msg_class(&e).chars().take(60).collect::<String>()));
            } else {
                acc.evals += 1;
                acc.fails.push((format!("stark.prover_failed_on_satisfying_trace: {}", msg_class(&e).chars().take(80).collect::<String>()), json!({"ctx": ctx, "err": e})));
            }
            return acc;
        }
    };
    acc.evals += 1;
    acc.c("positive_traces");
    acc.c(&format!("constraint_degree.{}", spec.degree));
    acc.c(&format!("log_n.{log_n}"));
    if let Err(e) = stark_verify(&stark, &config, proof.clone()) {
        acc.fails.push((format!("stark.rejected_honest_proof: {}", msg_class(&e).chars().take(80).collect::<String>()), json!({"ctx": ctx, "err": e})));
        return acc;
    }
    let n = trace[0].len();
    // ---- negative: corrupted traces through the real prover -----------------------------------
    set_knobs(StarkProverKnobs { skip_constraint_check: true, lenient_truncation: true, ..Default::default() });
    let rows: Vec<(usize, &str)> = vec![(0, "first_row"), (n - 1, "last_row(wrap-around)"), (n.saturating_sub(2), "second_to_last_row"), (rng.gen_range(0..n), "interior_row"), (rng.gen_range(0..n), "interior_row")];
    for (row, rname) in rows.iter().take(if quick { 4 } else { 5 }) {
        let col = rng.gen_range(0..COLS);
        let mut t2 = trace.clone();
        t2[col][*row] = other_value(&mut rng, t2[col][*row]);
        let bad = spec.check_trace(&t2, &pis);
        let violating = !bad.is_empty();
        let class = if violating { format!("cell:{rname}:{:?}", spec.cons[bad[0].1].kind) } else { format!("cell:{rname}:benign(unconstrained column)") };
        let out = attempt(&stark, &config, &t2, &pis);
        judge(&mut acc, &class, violating, &out, &ctx, json!({"row": row, "column": col, "first_violation": bad.first()}));
    }
    // a prover that never commits to a quotient and chooses it after zeta (needs a quotient to exist)
    if stark.spec.degree >= 1 {
        let mut t2 = trace.clone();
        for c in t2.iter_mut() {
            for x in c.iter_mut() {
                if rng.gen_bool(0.3) {
                    *x = other_value(&mut rng, *x);
                }
            }
        }
        let violating = !spec.check_trace(&t2, &pis).is_empty();
        if violating {
            set_knobs(StarkProverKnobs { skip_constraint_check: true, forge_quotient_after_zeta: true, ..Default::default() });
            let out = attempt(&stark, &config, &t2, &pis);
            set_knobs(StarkProverKnobs { skip_constraint_check: true, lenient_truncation: true, ..Default::default() });
            judge(&mut acc, "prover_never_commits_to_a_quotient", true, &out, &ctx, json!({}));
            set_knobs(StarkProverKnobs { skip_constraint_check: true, lenient_truncation: true, zero_quotient_without_openings: true, ..Default::default() });
            let out = attempt(&stark, &config, &t2, &pis);
            set_knobs(StarkProverKnobs { skip_constraint_check: true, lenient_truncation: true, ..Default::default() });
            judge(&mut acc, "prover_commits_to_zero_quotient_and_omits_its_openings", true, &out, &ctx, json!({}));
        }
    }
    // wrong public inputs, consistently given to the prover
    for i in 0..PIS {
        let mut p2 = pis.clone();
        p2[i] = other_value(&mut rng, p2[i]);
        let bad = spec.check_trace(&trace, &p2);
        let violating = !bad.is_empty();
        let class = if violating { "public_input_wrong(prover and verifier agree on it)".to_string() } else { "public_input_changed:benign(unreferenced)".to_string() };
        let out = attempt(&stark, &config, &trace, &p2);
        judge(&mut acc, &class, violating, &out, &ctx, json!({"public_input": i}));
    }
    set_knobs(StarkProverKnobs::default());
    // public inputs edited after proving
    for i in 0..PIS {
        let mut q = proof.clone();
        q.public_inputs[i] = F(other_value(&mut rng, pis[i]));
        let out = match stark_verify(&stark, &config, q) {
            Ok(()) => Out::Accepted,
            Err(e) => Out::Rejected(e),
        };
        judge(&mut acc, "public_input_edited_after_proving", true, &out, &ctx, json!({"public_input": i}));
    }
    // ---- tamper catalogue on the accepted proof ------------------------------------------------
    let slots = tamper::count_stark_slots::<C>(&proof);
    let stride = (slots / if quick { 60 } else { 400 }).max(1);
    let mut k = rng.gen_range(0..stride);
    while k < slots {
        let (q, class) = tamper::tamper_stark_at::<C>(&proof, k, (k % 5) as u8, rng.gen());
        let out = match stark_verify(&stark, &config, q) {
            Ok(()) => Out::Accepted,
            Err(e) => Out::Rejected(e),
        };
        judge(&mut acc, &format!("tamper.{class}"), true, &out, &ctx, json!({"slot": k}));
        k += stride;
    }
    if case % 24 == 0 {
        acc.sample = Some(json!({"ctx": ctx, "proof_slots": slots}));
    }
    acc
}

pub fn dispatch(seed: u64, c: u64, quick: bool) -> Acc {
    match c % 7 {
        0 => case::<2, 1>(seed, c, quick),
        1 => case::<3, 2>(seed, c, quick),
        2 => case::<4, 3>(seed, c, quick),
        3 => case::<6, 3>(seed, c, quick),
        4 => case::<8, 4>(seed, c, quick),
        5 => case::<3, 0>(seed, c, quick),
        _ => case::<5, 1>(seed, c, quick),
    }
}

pub fn merge(run: &mut Run, case: u64, acc: Acc, matrix: &mut BTreeMap<String, u64>) {
    run.evals(acc.evals);
    for (k, v) in acc.counters {
        run.count(&k, v);
    }
    for (k, v) in acc.matrix {
        *matrix.entry(k).or_insert(0) += v;
    }
    for k in acc.keys {
        run.nontrivial(k);
    }
    if let Some(s) = acc.sample {
        run.sample(s);
    }
    for w in acc.inconclusive {
        run.inconclusive(&w);
    }
    for (sig, d) in acc.fails {
        run.violation(&sig.replace(|c: char| c.is_ascii_digit(), "#"), case, d);
    }
}

pub fn run(tier: Tier) -> ! {
    let mut run = Run::new("C09", "fault_enumeration", tier);
    run.rule("STARK definitions from a data-driven family (2-8 columns, 0-4 public inputs, constraint degree 0 (no quotient), 1, 2, 3, 4 (quotient factor 3), 5; transition constraints next = f(local), all-row derived-column and boolean constraints, a cyclic counter whose all-row constraint includes the wrap-around row, first-row public-input and last-row result constraints, free columns) with traces of length 2^2..2^10 and sampled StarkConfigs (rate 1-3, cap 0-3, 1-3 challenges, all strategies). Independent oracle: explicit row predicate over u128 arithmetic. Positive: prove + verify_stark_proof accept. Negative through the real prover with its debug check skipped and lenient truncation (hook H4): one cell changed in the first / last / second-to-last / interior rows, wrong public inputs, public inputs edited after proving, stride sample over every element of the accepted proof. Expected verdict = predicate verdict (benign edits must still be accepted). distinct = (definition, length, config) + deviation classes.");
    run.assume("the row predicate in stk.rs is the specification of the generated STARK definitions");
    run.assume("soundness is decided for the enumerated deviations only");
    let quick = run.quick();
    let seed = run.seed;
    let n_cases: u64 = run.pick(800, 12000);
    let mut matrix = BTreeMap::new();
    if Run::shard_spec().is_none() {
        run.run_shards(16, 1, 3 * 3600);
        if !Run::is_sub() {
            run.run_variants();
        }
        run.count("cases", n_cases);
        if run.counter("positive_traces") == 0 {
            run.inconclusive("no positive trace was proved");
        }
    } else {
        for c in 0..n_cases {
            if !Run::in_shard(c) || run.skip_case(c) {
                continue;
            }
            let acc = dispatch(seed, c, quick);
            merge(&mut run, c, acc, &mut matrix);
        }
        run.set_extra("matrix_deviation_outcome", json!(matrix));
    }
    run.finish()
}
