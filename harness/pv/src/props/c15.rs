//! C15 — transforms and polynomial algebra agree with their definitions.

use plonky2::field::cosets::get_unique_coset_shifts;
use plonky2::field::fft::{fft, fft_root_table, fft_with_options, ifft, ifft_with_options};
use plonky2::field::goldilocks_field::GoldilocksField as F;
use plonky2::field::interpolation::{barycentric_weights, interpolant, interpolate, interpolate2};
use plonky2::field::polynomial::{PolynomialCoeffs, PolynomialValues};
use plonky2::field::types::{Field, PrimeField64};
use plonky2::field::zero_poly_coset::ZeroPolyOnCoset;
use plonky2::util::transpose;
use plonky2_util::{bits_u64, log2_ceil, log2_strict, log_floor, reverse_index_bits, reverse_index_bits_in_place};
use rand::Rng;
use serde_json::{json, Value};

use crate::gen;
use crate::mon::{catch, msg_class, norm_loc, Run, Tier};
use crate::refmodel::*;

const COSET_SHIFT: u64 = 14293326489335486720; // published MULTIPLICATIVE_GROUP_GENERATOR (pinned copy)

struct Ctx<'a> {
    run: &'a mut Run,
    fails: Vec<(String, Value)>,
}
impl Ctx<'_> {
    fn fail(&mut self, sig: &str, d: Value) {
        if self.fails.len() < 12 && !self.fails.iter().any(|(s, _)| s == sig) {
            self.fails.push((sig.to_string(), d));
        }
    }
    /// Evaluate `f`, compare with `want`; a panic is a violation too.
    fn cmp(&mut self, sig: &str, f: impl FnOnce() -> Vec<u64>, want: &[u64], ctx: Value) {
        self.run.eval();
        match catch(f) {
            Ok(got) => {
                if got != want {
                    let idx = got.iter().zip(want).position(|(a, b)| a != b);
                    self.fail(sig, json!({"ctx": ctx, "len_got": got.len(), "len_want": want.len(), "first_diff": idx}));
                }
            }
            Err(p) => self.fail(&format!("{sig}.panic@{}", norm_loc(&p.loc)), json!({"ctx": ctx, "panic": msg_class(&p.msg)})),
        }
    }
}

fn fv(xs: &[u64]) -> Vec<F> {
    xs.iter().map(|&x| F(x)).collect()
}
fn cv(xs: &[F]) -> Vec<u64> {
    xs.iter().map(|x| x.to_canonical_u64()).collect()
}
fn gen_vec<R: Rng>(rng: &mut R, bset: &[u64], n: usize, raw: bool) -> Vec<u64> {
    (0..n).map(|_| if raw { gen::raw_u64(rng, bset) } else { gen::canon_u64(rng, bset) }).collect()
}
fn canon_vec(xs: &[u64]) -> Vec<u64> {
    xs.iter().map(|&x| canon(x)).collect()
}

fn rev_bits(i: usize, bits: usize) -> usize {
    if bits == 0 {
        0
    } else {
        i.reverse_bits() >> (usize::BITS as usize - bits)
    }
}

fn check_bitrev<T: Copy + PartialEq + Send>(c: &mut Ctx, name: &str, lg: usize, make: impl Fn(usize) -> T) {
    let n = 1usize << lg;
    let arr: Vec<T> = (0..n).map(&make).collect();
    c.run.eval();
    c.run.nontrivial(("bitrev", name.to_string(), lg));
    let size_t = std::mem::size_of::<T>();
    let path = if (size_t << lg) <= (1 << 16) || size_t >= (1 << 14) { "small" } else if lg % 2 == 0 { "chunked_even" } else { "chunked_odd" };
    c.run.count(&format!("bitrev_inplace_path.{path}"), 1);
    let mut a = arr.clone();
    match catch(|| reverse_index_bits_in_place(&mut a)) {
        Ok(()) => {
            let bad = (0..n).find(|&i| a[i] != arr[rev_bits(i, lg)]);
            if let Some(i) = bad {
                c.fail(&format!("reverse_index_bits_in_place.{path}"), json!({"elem": name, "elem_size": size_t, "log_n": lg, "first_bad_index": i}));
            }
        }
        Err(p) => c.fail(&format!("reverse_index_bits_in_place.panic@{}", norm_loc(&p.loc)), json!({"elem": name, "log_n": lg, "panic": p.msg})),
    }
    if lg <= 20 {
        c.run.eval();
        match catch(|| reverse_index_bits(&arr)) {
            Ok(b) => {
                if b.len() != n || (0..n).any(|i| b[i] != arr[rev_bits(i, lg)]) {
                    c.fail("reverse_index_bits", json!({"elem": name, "log_n": lg}));
                }
            }
            Err(p) => c.fail(&format!("reverse_index_bits.panic@{}", norm_loc(&p.loc)), json!({"elem": name, "log_n": lg, "panic": p.msg})),
        }
    }
}

pub fn run(tier: Tier) -> ! {
    let mut run = Run::new("C15", "exploration", tier);
    run.rule("for every power-of-two size up to the tier bound: seeded coefficient/value vectors (boundary-biased, incl. non-canonical representations, all-zero, single-spike) are transformed by the crate and by an O(n^2) DFT over u128 arithmetic (sizes <= 2^10) or checked at 24 random points by Horner evaluation (larger sizes); every zero-tail factor and root-table option is exercised; polynomial algebra on operand degree pairs incl. zero/constant/equal-degree against schoolbook algebra; bit reversal for every log-size and five element widths. distinct cases = distinct (function, size, option, operand class).");
    run.assume("reference = harness O(n^2) DFT / schoolbook algebra over u128; the 2^32-th root of unity 7277203076849721926 and coset shift 14293326489335486720 are pinned copies whose order is checked on every run");
    let bset = gen::boundary_set();
    let quick = run.quick();
    let micro = run.micro();
    let mut c = Ctx { run: &mut run, fails: vec![] };
    let mut rng = crate::mon::case_rng(c.run.seed, 15_000, 0);

    // sanity of pinned constants (harness self-check)
    {
        let mut x = POW2_GEN;
        for _ in 0..31 {
            x = rmul(x, x);
        }
        if x != P - 1 {
            c.run.inconclusive("pinned 2^32-th root of unity has wrong order: harness defect");
        }
        c.run.eval();
        if F::POWER_OF_TWO_GENERATOR.to_canonical_u64() != POW2_GEN || F::coset_shift().to_canonical_u64() != COSET_SHIFT {
            c.fail("field.generator_constants_differ_from_published", json!({}));
        }
        for lg in 0..=32usize {
            c.run.eval();
            if F::primitive_root_of_unity(lg).to_canonical_u64() != root_of_unity(lg) {
                c.fail("primitive_root_of_unity", json!({"n_log": lg}));
            }
        }
    }

    // ---- FFT family ---------------------------------------------------------------------------
    let max_exact = if micro { 5 } else if quick { 10 } else { 11 };
    let max_spot = if micro { 5 } else if quick { 18 } else { 21 };
    let reps = if micro { 1 } else if quick { 3 } else { 6 };
    for lg in 0..=max_spot {
        let n = 1usize << lg;
        for rep in 0..reps {
            if lg > max_exact && rep > 0 {
                break;
            }
            let class = (rep + lg) % 5;
            let coeffs: Vec<u64> = match class {
                0 => gen_vec(&mut rng, &bset, n, true),
                1 => gen_vec(&mut rng, &bset, n, false),
                2 => {
                    let mut v = vec![0u64; n];
                    v[rng.gen_range(0..n)] = gen::raw_u64(&mut rng, &bset);
                    v
                }
                3 => vec![u64::MAX; n],
                _ => (0..n).map(|_| rng.gen_range(0..P)).collect(),
            };
            c.run.nontrivial(("fft", lg, class));
            let shift = loop {
                let s = gen::canon_u64(&mut rng, &bset);
                if s != 0 {
                    break s;
                }
            };
            // expected values
            let (want, want_coset, spot): (Vec<u64>, Vec<u64>, Vec<usize>) = if lg <= max_exact {
                (naive_dft(&coeffs, 1), naive_dft(&coeffs, shift), vec![])
            } else {
                let idx: Vec<usize> = (0..24).map(|_| rng.gen_range(0..n)).collect();
                (vec![], vec![], idx)
            };
            let w = root_of_unity(lg);
            let table = fft_root_table::<F>(n);
            let variants: Vec<(&str, Box<dyn Fn() -> Vec<u64> + '_>)> = vec![
                ("fft", Box::new(|| cv(&fft(PolynomialCoeffs::new(fv(&coeffs))).values))),
                ("fft.root_table", Box::new(|| cv(&fft_with_options(PolynomialCoeffs::new(fv(&coeffs)), None, Some(&table)).values))),
                ("fft.zero_factor0", Box::new(|| cv(&fft_with_options(PolynomialCoeffs::new(fv(&coeffs)), Some(0), None).values))),
                ("PolynomialCoeffs.fft", Box::new(|| cv(&PolynomialCoeffs::new(fv(&coeffs)).fft().values))),
            ];
            for (name, f) in variants {
                if lg <= max_exact {
                    c.cmp(name, f, &want, json!({"log_n": lg, "class": class}));
                } else {
                    c.run.eval();
                    match catch(f) {
                        Ok(got) => {
                            for &i in &spot {
                                if got[i] != poly_eval(&coeffs, rpow(w, i as u64)) {
                                    c.fail(&format!("{name}.spot"), json!({"log_n": lg, "index": i}));
                                    break;
                                }
                            }
                        }
                        Err(p) => c.fail(&format!("{name}.panic@{}", norm_loc(&p.loc)), json!({"log_n": lg, "panic": p.msg})),
                    }
                }
            }
            // coset fft
            if lg <= max_exact {
                c.cmp("coset_fft", || cv(&PolynomialCoeffs::new(fv(&coeffs)).coset_fft(F(shift)).values), &want_coset, json!({"log_n": lg, "shift": shift}));
                c.cmp("coset_fft.root_table", || cv(&PolynomialCoeffs::new(fv(&coeffs)).coset_fft_with_options(F(shift), None, Some(&table)).values), &want_coset, json!({"log_n": lg, "shift": shift}));
                // inverse transforms
                let cc = canon_vec(&coeffs);
                c.cmp("ifft", || cv(&ifft(PolynomialValues::new(fv(&want))).coeffs), &cc, json!({"log_n": lg}));
                c.cmp("ifft.root_table", || cv(&ifft_with_options(PolynomialValues::new(fv(&want)), None, Some(&table)).coeffs), &cc, json!({"log_n": lg}));
                c.cmp("PolynomialValues.ifft", || cv(&PolynomialValues::new(fv(&want)).ifft().coeffs), &cc, json!({"log_n": lg}));
                c.cmp("coset_ifft", || cv(&PolynomialValues::new(fv(&want_coset)).coset_ifft(F(shift)).coeffs), &cc, json!({"log_n": lg, "shift": shift}));
            } else {
                let cc = canon_vec(&coeffs);
                c.cmp("ifft_of_fft", || cv(&ifft(fft(PolynomialCoeffs::new(fv(&coeffs)))).coeffs), &cc, json!({"log_n": lg}));
            }
            // zero-tail factors: every r <= lg
            for r in 0..=lg {
                if lg > max_exact && !(r <= 3 || r == lg || r == lg / 2) {
                    continue;
                }
                let keep = n >> r;
                let mut zc = coeffs.clone();
                for x in zc[keep..].iter_mut() {
                    *x = 0;
                }
                let full = if lg <= max_exact { naive_dft(&zc, 1) } else { vec![] };
                c.run.nontrivial(("zero_factor", lg, r));
                if lg <= max_exact {
                    c.cmp("fft.zero_factor", || cv(&fft_with_options(PolynomialCoeffs::new(fv(&zc)), Some(r), None).values), &full, json!({"log_n": lg, "r": r}));
                    c.cmp("fft.zero_factor.root_table", || cv(&fft_with_options(PolynomialCoeffs::new(fv(&zc)), Some(r), Some(&table)).values), &full, json!({"log_n": lg, "r": r}));
                    c.cmp("coset_fft.zero_factor", || cv(&PolynomialCoeffs::new(fv(&zc)).coset_fft_with_options(F(shift), Some(r), None).values), &naive_dft(&zc, shift), json!({"log_n": lg, "r": r}));
                } else {
                    let a = catch(|| cv(&fft_with_options(PolynomialCoeffs::new(fv(&zc)), Some(r), None).values));
                    let b = catch(|| cv(&fft(PolynomialCoeffs::new(fv(&zc))).values));
                    c.run.eval();
                    match (a, b) {
                        (Ok(a), Ok(b)) if a == b => {}
                        _ => c.fail("fft.zero_factor.large", json!({"log_n": lg, "r": r})),
                    }
                }
            }
            // over-long root table: documented refusal (panic "Expected root table of length")
            if lg <= 6 && rep == 0 {
                let big = fft_root_table::<F>(n * 2);
                c.run.eval();
                match catch(|| fft_with_options(PolynomialCoeffs::new(fv(&coeffs)), None, Some(&big))) {
                    Err(p) if p.msg.contains("Expected root table of length") => c.run.count("oversized_root_table_refused", 1),
                    Err(p) => c.fail("fft.oversized_root_table.unexpected_panic", json!({"panic": p.msg})),
                    Ok(v) => {
                        if cv(&v.values) != want {
                            c.fail("fft.oversized_root_table.wrong_values", json!({"log_n": lg}));
                        }
                    }
                }
            }
            // LDE
            if lg <= max_exact.min(8) {
                for rate_bits in 0..=3usize {
                    let mut padded = canon_vec(&coeffs);
                    padded.resize(n << rate_bits, 0);
                    c.run.nontrivial(("lde", lg, rate_bits));
                    c.cmp("PolynomialCoeffs.lde", || cv(&PolynomialCoeffs::new(fv(&coeffs)).lde(rate_bits).coeffs), &padded, json!({"log_n": lg, "rate_bits": rate_bits}));
                    c.cmp("PolynomialValues.lde", || cv(&PolynomialValues::new(fv(&want)).lde(rate_bits).values), &naive_dft(&padded, 1), json!({"log_n": lg, "rate_bits": rate_bits}));
                    c.cmp("PolynomialValues.lde_onto_coset", || cv(&PolynomialValues::new(fv(&want)).lde_onto_coset(rate_bits).values), &naive_dft(&padded, COSET_SHIFT), json!({"log_n": lg, "rate_bits": rate_bits}));
                }
            }
        }
    }

    // ---- polynomial algebra -------------------------------------------------------------------
    {
        let lens: Vec<usize> = if micro { vec![0, 1, 2, 5, 8, 9] } else { vec![0, 1, 2, 3, 4, 5, 7, 8, 9, 15, 16, 17, 31, 33, 64, 100] };
        let reps = if micro { 1 } else if quick { 2 } else { 8 };
        for &la in &lens {
            for &lb in &lens {
                for rep in 0..reps {
                    let mut a = gen_vec(&mut rng, &bset, la, rep % 2 == 0);
                    let mut b = gen_vec(&mut rng, &bset, lb, rep % 2 == 0);
                    // operand classes: trailing zeros, all-zero, equal polynomials
                    match rng.gen_range(0..6) {
                        0 if la > 1 => {
                            let l = a.len();
                            a[l - 1] = 0
                        }
                        1 if lb > 1 => {
                            let l = b.len();
                            b[l - 1] = 0;
                            if lb > 2 {
                                b[l - 2] = 0;
                            }
                        }
                        2 => a.iter_mut().for_each(|x| *x = 0),
                        3 if la == lb => b = a.clone(),
                        4 | 5 if lb >= 1 && la >= lb && canon(b[lb - 1]) != 0 => {
                            // structured dividend a = b*q + r with a sparse quotient (zero low-order
                            // coefficients, interior gaps, a monomial) and a short or empty remainder
                            let lq = la - lb + 1;
                            let mut q = vec![0u64; lq];
                            match rng.gen_range(0..4) {
                                0 => q[lq - 1] = 1,
                                1 => {
                                    q[lq - 1] = gen::canon_u64(&mut rng, &bset).max(1);
                                    if lq > 2 {
                                        q[lq / 2] = gen::canon_u64(&mut rng, &bset);
                                    }
                                }
                                2 => {
                                    let z = rng.gen_range(0..lq);
                                    for (i, x) in q.iter_mut().enumerate() {
                                        *x = if i < z { 0 } else { gen::canon_u64(&mut rng, &bset) };
                                    }
                                    q[lq - 1] = q[lq - 1].max(1);
                                }
                                _ => {
                                    for x in q.iter_mut() {
                                        *x = if rng.gen_bool(0.5) { 0 } else { gen::canon_u64(&mut rng, &bset) };
                                    }
                                    q[lq - 1] = q[lq - 1].max(1);
                                }
                            }
                            let lr = if lb > 1 { rng.gen_range(0..lb) } else { 0 };
                            let r: Vec<u64> = (0..lr).map(|_| gen::canon_u64(&mut rng, &bset)).collect();
                            let mut prod = poly_mul(&canon_vec(&b), &q);
                            prod.resize(la.max(prod.len()), 0);
                            for (i, x) in r.iter().enumerate() {
                                prod[i] = radd(prod[i], *x);
                            }
                            prod.truncate(la);
                            a = prod;
                            c.run.count("poly.structured_dividends_sparse_quotient", 1);
                        }
                        _ => {}
                    }
                    c.run.nontrivial(("poly", la, lb, rep));
                    let (pa, pb) = (PolynomialCoeffs::new(fv(&a)), PolynomialCoeffs::new(fv(&b)));
                    let ctx = json!({"len_a": la, "len_b": lb, "a": a.iter().take(6).collect::<Vec<_>>(), "b": b.iter().take(6).collect::<Vec<_>>()});
                    // mul
                    let want = poly_trim(poly_mul(&a, &b));
                    c.cmp("poly.mul", || poly_trim(cv(&(&pa * &pb).coeffs)), &want, ctx.clone());
                    // add / sub
                    let l = la.max(lb);
                    let (mut ax, mut bx) = (canon_vec(&a), canon_vec(&b));
                    ax.resize(l, 0);
                    bx.resize(l, 0);
                    c.cmp("poly.add", || poly_trim(cv(&(&pa + &pb).coeffs)), &poly_trim(ext_add(&ax, &bx)), ctx.clone());
                    c.cmp("poly.sub", || poly_trim(cv(&(&pa - &pb).coeffs)), &poly_trim(ext_sub(&ax, &bx)), ctx.clone());
                    // eval
                    let x = gen::raw_u64(&mut rng, &bset);
                    c.cmp("poly.eval", || vec![pa.eval(F(x)).to_canonical_u64()], &[poly_eval(&a, x)], ctx.clone());
                    c.cmp("poly.degree_plus_one", || vec![pa.degree_plus_one() as u64], &[poly_trim(a.clone()).len() as u64], ctx.clone());
                    // division
                    if poly_trim(b.clone()).is_empty() {
                        c.run.eval();
                        if !poly_trim(a.clone()).is_empty() {
                            match catch(|| pa.div_rem(&pb)) {
                                Err(p) if p.msg.contains("Division by zero polynomial") => c.run.count("division_by_zero_refused", 1),
                                Err(p) => c.fail(&format!("poly.div_rem.zero_divisor.panic@{}", norm_loc(&p.loc)), json!({"ctx": ctx, "panic": p.msg})),
                                Ok(_) => c.fail("poly.div_rem.zero_divisor.accepted", ctx.clone()),
                            }
                        }
                    } else {
                        let (wq, wr) = poly_divrem(&a, &b);
                        for (name, which) in [("poly.div_rem", 0), ("poly.div_rem_long_division", 1)] {
                            c.run.eval();
                            let res = catch(|| if which == 0 { pa.div_rem(&pb) } else { pa.div_rem_long_division(&pb) });
                            match res {
                                Ok((q, r)) => {
                                    let (q, r) = (poly_trim(cv(&q.coeffs)), poly_trim(cv(&r.coeffs)));
                                    if q != wq || r != wr {
                                        c.fail(name, json!({"ctx": ctx, "q": q.len(), "r": r.len(), "want_q": wq.len(), "want_r": wr.len()}));
                                    }
                                }
                                Err(p) => c.fail(&format!("{name}.panic@{}", norm_loc(&p.loc)), json!({"ctx": ctx, "panic": msg_class(&p.msg)})),
                            }
                        }
                    }
                    // divide_by_linear
                    if la > 0 {
                        let z = gen::raw_u64(&mut rng, &bset);
                        let mut num = canon_vec(&a);
                        num[0] = rsub(num[0], poly_eval(&a, z));
                        let (wq, wr) = poly_divrem(&num, &[rneg(z), 1]);
                        debug_assert!(wr.is_empty());
                        c.cmp("poly.divide_by_linear", || poly_trim(cv(&pa.divide_by_linear(F(z)).coeffs)), &wq, ctx.clone());
                    }
                    // inv_mod_xn
                    if la > 0 && canon(a[0]) != 0 && la <= 33 {
                        for n in [1usize, 2, 3, la, la + 1, 2 * la + 3] {
                            c.run.eval();
                            match catch(|| pa.inv_mod_xn(n)) {
                                Ok(inv) => {
                                    let mut prod = poly_mul(&a, &cv(&inv.coeffs));
                                    prod.truncate(n);
                                    let prod = poly_trim(prod);
                                    if prod != vec![1] || inv.coeffs.len() > n {
                                        c.fail("poly.inv_mod_xn", json!({"ctx": ctx, "n": n, "inv_len": inv.coeffs.len()}));
                                    }
                                }
                                Err(p) => c.fail(&format!("poly.inv_mod_xn.panic@{}", norm_loc(&p.loc)), json!({"ctx": ctx, "n": n, "panic": msg_class(&p.msg)})),
                            }
                        }
                    }
                }
            }
        }
    }

    // ---- sparse operands: inverse mod x^n and division by sparse divisors -----------------------
    // (a Newton block of the inverse that ends in zero coefficients; divisors whose reversal has gaps)
    {
        let gaps: Vec<usize> = if micro { vec![2, 5] } else if quick { vec![1, 2, 3, 4, 7, 8, 9, 15, 16, 17, 28, 31, 33] } else { (1..=70).collect() };
        for &gap in &gaps {
            for rep in 0..(if micro { 1 } else if quick { 2 } else { 6 }) {
                let tail = 1 + (rep + gap) % 3;
                let mut a = vec![0u64; gap + tail];
                a[0] = gen::canon_u64(&mut rng, &bset).max(1);
                for x in a[gap..].iter_mut() {
                    *x = gen::canon_u64(&mut rng, &bset).max(1);
                }
                if rep % 2 == 1 && gap > 2 {
                    a[gap / 2] = gen::canon_u64(&mut rng, &bset);
                }
                let pa = PolynomialCoeffs::new(fv(&a));
                c.run.nontrivial(("sparse", gap, rep));
                for n in [1usize, 2, gap, gap + 1, gap + tail, 2 * gap, 2 * gap + 1, 32, 33, 4 * gap + 3] {
                    if n == 0 {
                        continue;
                    }
                    c.run.eval();
                    c.run.count("poly.sparse_inverse_cases", 1);
                    match catch(|| pa.inv_mod_xn(n)) {
                        Ok(inv) => {
                            let mut prod = poly_mul(&a, &cv(&inv.coeffs));
                            prod.truncate(n);
                            if poly_trim(prod) != vec![1] || inv.coeffs.len() > n {
                                c.fail("poly.inv_mod_xn", json!({"sparse": a, "n": n, "inv_len": inv.coeffs.len()}));
                            }
                        }
                        Err(p) => c.fail(&format!("poly.inv_mod_xn.panic@{}", norm_loc(&p.loc)), json!({"sparse": a, "n": n, "panic": msg_class(&p.msg)})),
                    }
                }
                // the reversal of `a` as a divisor (div_rem inverts the reversed divisor)
                let mut b: Vec<u64> = a.clone();
                b.reverse();
                for extra in [0usize, 1, gap, 2 * gap + 1, 40] {
                    let dividend = gen_vec(&mut rng, &bset, b.len() + extra, false);
                    let (wq, wr) = poly_divrem(&dividend, &b);
                    c.run.eval();
                    c.run.count("poly.sparse_divisor_cases", 1);
                    let pd = PolynomialCoeffs::new(fv(&dividend));
                    let pb = PolynomialCoeffs::new(fv(&b));
                    match catch(|| pd.div_rem(&pb)) {
                        Ok((q, r)) => {
                            if poly_trim(cv(&q.coeffs)) != wq || poly_trim(cv(&r.coeffs)) != wr {
                                c.fail("poly.div_rem", json!({"sparse_divisor": b, "dividend_len": dividend.len()}));
                            }
                        }
                        Err(p) => c.fail(&format!("poly.div_rem.panic@{}", norm_loc(&p.loc)), json!({"sparse_divisor": b, "panic": msg_class(&p.msg)})),
                    }
                }
            }
        }
    }

    // ---- interpolation ------------------------------------------------------------------------
    {
        for n in 1..=(if micro { 5usize } else if quick { 20 } else { 40 }) {
            for rep in 0..(if micro { 1 } else if quick { 2 } else { 10 }) {
                let mut xs: Vec<u64> = vec![];
                while xs.len() < n {
                    let x = if rep % 2 == 0 { gen::canon_u64(&mut rng, &bset) } else { rng.gen_range(0..P) };
                    if !xs.contains(&x) {
                        xs.push(x);
                    }
                }
                let ys = gen_vec(&mut rng, &bset, n, false);
                let pts: Vec<(F, F)> = xs.iter().zip(&ys).map(|(&x, &y)| (F(x), F(y))).collect();
                c.run.nontrivial(("interp", n, rep));
                // reference Lagrange evaluation
                let lagrange = |x: u64| -> u64 {
                    let mut acc = 0u64;
                    for i in 0..n {
                        let mut num = 1u64;
                        let mut den = 1u64;
                        for j in 0..n {
                            if i != j {
                                num = rmul(num, rsub(x, xs[j]));
                                den = rmul(den, rsub(xs[i], xs[j]));
                            }
                        }
                        acc = radd(acc, rmul(ys[i], rmul(num, rinv(den).unwrap())));
                    }
                    acc
                };
                let probe: Vec<u64> = (0..4).map(|_| gen::canon_u64(&mut rng, &bset)).chain(xs.iter().copied().take(2)).collect();
                let want: Vec<u64> = probe.iter().map(|&x| lagrange(x)).collect();
                let ctx = json!({"n": n, "xs": xs, "ys": ys});
                c.run.eval();
                match catch(|| interpolant(&pts)) {
                    Ok(p) => {
                        let co = cv(&p.coeffs);
                        if co.len() > n || probe.iter().zip(&want).any(|(&x, &w)| poly_eval(&co, x) != w) {
                            c.fail("interpolant", ctx.clone());
                        }
                    }
                    Err(p) => c.fail(&format!("interpolant.panic@{}", norm_loc(&p.loc)), json!({"ctx": ctx, "panic": msg_class(&p.msg)})),
                }
                c.cmp("interpolate", || {
                    let w = barycentric_weights(&pts);
                    probe.iter().map(|&x| interpolate(&pts, F(x), &w).to_canonical_u64()).collect()
                }, &want, ctx.clone());
                if n == 2 {
                    c.cmp("interpolate2", || probe.iter().map(|&x| interpolate2([pts[0], pts[1]], F(x)).to_canonical_u64()).collect(), &want, ctx.clone());
                }
            }
        }
    }

    // ---- zero polynomial on coset, coset shifts ------------------------------------------------
    {
        for n_log in 0..=(if micro { 3usize } else if quick { 8 } else { 14 }) {
            for rate_bits in 0..=4usize {
                c.run.nontrivial(("zpc", n_log, rate_bits));
                let z = match catch(|| ZeroPolyOnCoset::<F>::new(n_log, rate_bits)) {
                    Ok(z) => z,
                    Err(p) => {
                        c.fail("ZeroPolyOnCoset.new.panic", json!({"n_log": n_log, "rate_bits": rate_bits, "panic": p.msg}));
                        continue;
                    }
                };
                let w = root_of_unity(n_log + rate_bits);
                let n = 1u64 << n_log;
                let total = 1usize << (n_log + rate_bits);
                let idx: Vec<usize> = if total <= 64 { (0..total).collect() } else { (0..32).map(|_| rng.gen_range(0..total)).chain([0, total - 1]).collect() };
                for &i in &idx {
                    let x = rmul(COSET_SHIFT, rpow(w, i as u64));
                    let zh = rsub(rpow(x, n), 1);
                    c.run.eval();
                    if z.eval(i).to_canonical_u64() != zh || z.eval_inverse(i).to_canonical_u64() != rinv(zh).unwrap() {
                        c.fail("ZeroPolyOnCoset.eval", json!({"n_log": n_log, "rate_bits": rate_bits, "i": i}));
                    }
                    let l0 = rmul(zh, rinv(rmul(canon(n), rsub(x, 1))).unwrap());
                    if z.eval_l_0(i, F(x)).to_canonical_u64() != l0 {
                        c.fail("ZeroPolyOnCoset.eval_l_0", json!({"n_log": n_log, "rate_bits": rate_bits, "i": i}));
                    }
                }
            }
        }
        for sub_bits in [0usize, 1, 3, 8, 12] {
            for num in [1usize, 2, 5, 80, 135] {
                c.run.eval();
                c.run.nontrivial(("coset_shifts", sub_bits, num));
                let shifts = cv(&get_unique_coset_shifts::<F>(1 << sub_bits, num));
                let n = 1u64 << sub_bits;
                let classes: Vec<u64> = shifts.iter().map(|&s| rpow(s, n)).collect();
                let mut sorted = classes.clone();
                sorted.sort();
                sorted.dedup();
                if shifts.len() != num || sorted.len() != num {
                    c.fail("get_unique_coset_shifts.not_distinct_cosets", json!({"subgroup_bits": sub_bits, "num": num}));
                }
            }
        }
    }

    // ---- bit reversal, transpose, logs ---------------------------------------------------------
    {
        // micro: the element widths are kept, the lengths stop right after each code path is entered
        // (<= 64-entry table path, > 64 path, chunk + transpose path for even and odd logs, BIG_T path)
        let max_lg = if micro { 8 } else if quick { 19 } else { 22 };
        for lg in 0..=max_lg {
            check_bitrev::<u8>(&mut c, "u8", lg, |i| (i as u8).wrapping_mul(31).wrapping_add((i >> 8) as u8));
            check_bitrev::<u64>(&mut c, "u64", lg, |i| (i as u64).wrapping_mul(0x9E3779B97F4A7C15));
            if lg <= 18 {
                check_bitrev::<u16>(&mut c, "u16", lg, |i| (i as u16) ^ ((i >> 16) as u16).wrapping_mul(7));
                check_bitrev::<[u64; 4]>(&mut c, "[u64;4]", lg, |i| [i as u64, !(i as u64), 3 * i as u64, 7]);
            }
            if lg <= 14 {
                check_bitrev::<[u8; 24]>(&mut c, "[u8;24]", lg, |i| {
                    let mut a = [0u8; 24];
                    a[..8].copy_from_slice(&(i as u64).to_le_bytes());
                    a[23] = i as u8;
                    a
                });
            }
            if lg <= if micro { 7 } else { 9 } {
                check_bitrev::<[u64; 256]>(&mut c, "[u64;256] (2 KiB)", lg, |i| [i as u64; 256]);
            }
            if lg <= if micro { 2 } else { 4 } {
                check_bitrev::<[u64; 2048]>(&mut c, "[u64;2048] (16 KiB, BIG_T)", lg, |i| [i as u64 + 1; 2048]);
            }
        }
        for (rows, cols) in [(1usize, 1usize), (1, 7), (7, 1), (3, 5), (16, 16), (17, 33), (64, 5), (128, 257)] {
            if micro && rows * cols > 600 {
                continue;
            }
            let m: Vec<Vec<u64>> = (0..rows).map(|r| (0..cols).map(|cc| (r * 1000 + cc) as u64).collect()).collect();
            c.run.eval();
            c.run.nontrivial(("transpose", rows, cols));
            match catch(|| transpose(&m)) {
                Ok(t) => {
                    if t.len() != cols || t.iter().any(|r| r.len() != rows) || (0..rows).any(|r| (0..cols).any(|cc| t[cc][r] != m[r][cc])) {
                        c.fail("transpose", json!({"rows": rows, "cols": cols}));
                    }
                }
                Err(p) => c.fail("transpose.panic", json!({"rows": rows, "cols": cols, "panic": p.msg})),
            }
        }
        for k in 0..64u32 {
            for d in [-1i64, 0, 1] {
                let n = ((1u128 << k) as i128 + d as i128) as i128;
                if n < 1 || n > usize::MAX as i128 {
                    continue;
                }
                let n = n as usize;
                c.run.eval();
                let want_ceil = (0..=64).find(|&e| (1u128 << e) >= n as u128).unwrap();
                if log2_ceil(n) != want_ceil {
                    c.fail("log2_ceil", json!({"n": n}));
                }
                if bits_u64(n as u64) != (64 - (n as u64).leading_zeros()) as usize {
                    c.fail("bits_u64", json!({"n": n}));
                }
                let strict = catch(|| log2_strict(n));
                if n.is_power_of_two() != strict.is_ok() || strict.map(|v| v != n.trailing_zeros() as usize).unwrap_or(false) {
                    c.fail("log2_strict", json!({"n": n}));
                }
                for base in [2u64, 3, 10, 1 << 16] {
                    let mut e = 0usize;
                    let mut cur = 1u128;
                    while cur * base as u128 <= n as u128 {
                        cur *= base as u128;
                        e += 1;
                    }
                    if log_floor(n as u64, base) != e {
                        c.fail("log_floor", json!({"n": n, "base": base}));
                    }
                }
            }
        }
    }

    let fails = std::mem::take(&mut c.fails);
    run.sample(json!({"case": "fft", "log_n": 3, "coeffs_class": "boundary-biased raw u64", "reference": "naive_dft", "options": ["plain", "root_table", "zero_factor 0..=3", "coset shift"]}));
    run.sample(json!({"case": "div_rem", "len_a": 17, "len_b": 5, "reference": "schoolbook long division", "checked": "q and r equal after trimming"}));
    run.set_extra("h1_false_assumes", json!(plonky2_util::verif_hooks::FALSE_ASSUMES.load(std::sync::atomic::Ordering::Relaxed)));
    for (sig, d) in fails {
        run.violation(&sig, 0, d);
    }
    if !Run::is_sub() {
        run.run_variants();
    }
    run.finish()
}
