//! C05 — FRI opening proofs attest only true evaluations of low-degree polynomials.
//!
//! Stand-alone FRI harness on the public API. Positive instances (reference openings by Horner in
//! the u128 model) must verify; wrong openings, adversarial first layers pushed through the real
//! commit/query code, insufficient grinding and every single-element edit under FIXED challenges
//! must be rejected. The same for the batched variant over polynomials of different degrees.

use std::collections::BTreeMap;

use plonky2::batch_fri::oracle::BatchFriOracle;
use plonky2::batch_fri::verifier::verify_batch_fri_proof;
use plonky2::field::extension::{Extendable, FieldExtension};
use plonky2::field::goldilocks_field::GoldilocksField as F;
use plonky2::field::polynomial::{PolynomialCoeffs, PolynomialValues};
use plonky2::field::types::{Field, PrimeField64};
use plonky2::fri::oracle::PolynomialBatch;
use plonky2::fri::proof::{FriChallenges, FriProof};
use plonky2::fri::prover::fri_proof;
use plonky2::fri::reduction_strategies::FriReductionStrategy;
use plonky2::fri::structure::{FriBatchInfo, FriInstanceInfo, FriOpeningBatch, FriOpenings, FriOracleInfo, FriPolynomialInfo};
use plonky2::fri::verifier::verify_fri_proof;
use plonky2::fri::{FriConfig, FriParams};
use plonky2::hash::merkle_tree::MerkleCap;
use plonky2::iop::challenger::Challenger;
use plonky2::plonk::config::{GenericConfig, Hasher, KeccakGoldilocksConfig, PoseidonGoldilocksConfig};
use plonky2::util::timing::TimingTree;
use rand::Rng;
use rand_chacha::ChaCha8Rng;
use rayon::prelude::*;
use serde_json::{json, Value};

use crate::gen;
use crate::mon::{catch, msg_class, norm_loc, Run, Tier};
use crate::refmodel::{ext_add, ext_mul};
use crate::tamper::{self, HashTamper, Slot};

const D: usize = 2;
const P: u64 = 0xFFFF_FFFF_0000_0001;
type FE = <F as Extendable<D>>::Extension;

#[derive(Default)]
struct Acc {
    evals: u64,
    counters: BTreeMap<String, u64>,
    reasons: BTreeMap<String, u64>,
    fails: Vec<(String, Value)>,
    keys: Vec<String>,
    sample: Option<Value>,
    inconclusive: Vec<String>,
}
impl Acc {
    fn c(&mut self, k: &str) {
        *self.counters.entry(k.to_string()).or_insert(0) += 1;
    }
}

fn ref_eval(coeffs: &[F], z: FE) -> FE {
    let zz = [z.0[0].to_canonical_u64(), z.0[1].to_canonical_u64()];
    let mut acc = vec![0u64, 0];
    for c in coeffs.iter().rev() {
        acc = ext_add(&ext_mul(&acc, &zz, 7), &[c.to_canonical_u64(), 0]);
    }
    FE::from_basefield_array([F(acc[0]), F(acc[1])])
}

fn rand_ext(rng: &mut ChaCha8Rng) -> FE {
    FE::from_basefield_array([gen::f_uniform(rng), gen::f_uniform(rng)])
}

#[derive(Clone, Debug)]
struct Shape {
    k: usize,
    params: FriParams,
    oracles: Vec<(usize, bool)>, // (num_polys, blinding)
    desc: Value,
}

fn admissible(k: usize, rate_bits: usize, cap_height: usize, arities: &[usize]) -> bool {
    let total: usize = arities.iter().sum();
    total <= k && total + cap_height <= k + rate_bits && arities.iter().all(|a| *a >= 1)
}

fn gen_shape(rng: &mut ChaCha8Rng, quick: bool, strong: bool, acc: &mut Acc) -> Option<Shape> {
    let k = if rng.gen_bool(0.6) { rng.gen_range(4..=if quick { 8 } else { 10 }) } else { rng.gen_range(2..=if quick { 8 } else { 10 }) };
    let rate_bits = rng.gen_range(1..=3);
    let cap_height = rng.gen_range(0..=4usize.min(k + rate_bits));
    let num_queries = if strong { (56 + rate_bits - 1) / rate_bits } else { rng.gen_range(3..24) };
    let strategy = match rng.gen_range(0..6) {
        0 => FriReductionStrategy::ConstantArityBits(rng.gen_range(1..=4), rng.gen_range(0..=5)),
        1 => FriReductionStrategy::ConstantArityBits(1, 0),
        2 => FriReductionStrategy::MinSize(None),
        3 => FriReductionStrategy::MinSize(Some(rng.gen_range(1..=4))),
        4 => FriReductionStrategy::Fixed((0..rng.gen_range(1..=4)).map(|_| rng.gen_range(1..=3)).collect()),
        5 if rng.gen_bool(0.3) => FriReductionStrategy::Fixed(vec![]),
        _ => FriReductionStrategy::ConstantArityBits(rng.gen_range(1..=3), rng.gen_range(0..=2)),
    };
    let hiding = rng.gen_bool(0.3);
    let config = FriConfig { rate_bits, cap_height, proof_of_work_bits: rng.gen_range(0..6), reduction_strategy: strategy.clone(), num_query_rounds: num_queries };
    let params = match catch(|| config.fri_params(k, hiding)) {
        Ok(p) => p,
        Err(p) => {
            acc.c(&format!("shape_refused_by_strategy: {}", msg_class(&p.msg).chars().take(50).collect::<String>()));
            return None;
        }
    };
    let ar = params.reduction_arity_bits.clone();
    let total: usize = ar.iter().sum();
    // arity-schedule invariants for the strategies that are given the cap height
    if let FriReductionStrategy::ConstantArityBits(a, fb) = strategy {
        acc.evals += 1;
        acc.c("schedule_invariant_checks.constant_arity_bits");
        let below_cap = total + cap_height > k + rate_bits;
        let too_deep = total > k;
        let wrong_arity = ar.iter().any(|x| *x != a);
        let stopped_early = k - total > fb && (k - total) + rate_bits >= a + cap_height && k - total >= a;
        if below_cap || too_deep || wrong_arity || stopped_early {
            acc.fails.push(("schedule.constant_arity_bits_violates_its_contract".into(), json!({"degree_bits": k, "rate_bits": rate_bits, "cap_height": cap_height, "arity_bits": a, "final_poly_bits": fb, "schedule": ar, "folds_below_cap": below_cap, "folds_below_one_coefficient": too_deep, "stopped_early": stopped_early})));
            return None;
        }
    }
    if !admissible(k, rate_bits, cap_height, &ar) {
        acc.c("shape_inadmissible (schedule deeper than the degree or than the cap allows)");
        return None;
    }
    let n_oracles = rng.gen_range(1..=4);
    let oracles: Vec<(usize, bool)> = (0..n_oracles).map(|_| (rng.gen_range(1..=6), hiding && rng.gen_bool(0.6))).collect();
    let desc = json!({"degree_bits": k, "rate_bits": rate_bits, "cap_height": cap_height, "queries": num_queries, "pow_bits": config.proof_of_work_bits, "strategy": format!("{strategy:?}"), "schedule": ar, "hiding": hiding, "oracles": oracles});
    Some(Shape { k, params, oracles, desc })
}

struct Instance<C: GenericConfig<D, F = F>> {
    shape: Shape,
    batches: Vec<PolynomialBatch<F, C, D>>,
    instance: FriInstanceInfo<F, D>,
    true_openings: Vec<Vec<FE>>,
}

fn gen_instance<C: GenericConfig<D, F = F>>(rng: &mut ChaCha8Rng, shape: Shape) -> Instance<C> {
    let bset = gen::boundary_set();
    let n = 1usize << shape.k;
    let mut timing = TimingTree::default();
    let mut batches = vec![];
    for (np, blinding) in shape.oracles.iter() {
        let polys: Vec<PolynomialCoeffs<F>> = (0..*np)
            .map(|j| {
                let mut c: Vec<F> = (0..n).map(|_| if j % 2 == 0 { gen::f_uniform(rng) } else { gen::f_canon(rng, &bset) }).collect();
                match rng.gen_range(0..6) {
                    0 => c.iter_mut().for_each(|x| *x = F::ZERO), // zero polynomial
                    1 => {
                        // constant
                        for x in c.iter_mut().skip(1) {
                            *x = F::ZERO;
                        }
                    }
                    2 => {
                        // low degree
                        let d = rng.gen_range(0..n);
                        for x in c.iter_mut().skip(d) {
                            *x = F::ZERO;
                        }
                    }
                    _ => {}
                }
                PolynomialCoeffs::new(c)
            })
            .collect();
        batches.push(PolynomialBatch::<F, C, D>::from_coeffs(polys, shape.params.config.rate_bits, *blinding, shape.params.config.cap_height, &mut timing, None));
    }
    let n_points = rng.gen_range(1..=3);
    let mut fbatches = vec![];
    let mut true_openings = vec![];
    let all: Vec<FriPolynomialInfo> = shape.oracles.iter().enumerate().flat_map(|(o, (np, _))| FriPolynomialInfo::from_range(o, 0..*np)).collect();
    for b in 0..n_points {
        let point = rand_ext(rng);
        let polys: Vec<FriPolynomialInfo> = if b == 0 { all.clone() } else { all.iter().copied().filter(|_| rng.gen_bool(0.5)).collect() };
        let vals: Vec<FE> = polys.iter().map(|p| ref_eval(&batches[p.oracle_index].polynomials[p.polynomial_index].coeffs, point)).collect();
        fbatches.push(FriBatchInfo { point, polynomials: polys });
        true_openings.push(vals);
    }
    let instance = FriInstanceInfo { oracles: shape.oracles.iter().map(|(np, bl)| FriOracleInfo { num_polys: *np, blinding: *bl }).collect(), batches: fbatches };
    Instance { shape, batches, instance, true_openings }
}

fn openings_of(vals: &[Vec<FE>]) -> FriOpenings<F, D> {
    FriOpenings { batches: vals.iter().map(|v| FriOpeningBatch { values: v.clone() }).collect() }
}

fn transcript_start<C: GenericConfig<D, F = F>>(inst: &Instance<C>, openings: &FriOpenings<F, D>) -> Challenger<F, C::Hasher> {
    let mut ch = Challenger::<F, C::Hasher>::new();
    for b in inst.batches.iter() {
        ch.observe_cap::<C::Hasher>(&b.merkle_tree.cap);
    }
    ch.observe_openings(openings);
    ch
}

fn challenges_for<C: GenericConfig<D, F = F>>(inst: &Instance<C>, openings: &FriOpenings<F, D>, proof: &FriProof<F, C::Hasher, D>) -> FriChallenges<F, D> {
    let mut ch = transcript_start(inst, openings);
    ch.fri_challenges::<C, D>(&proof.commit_phase_merkle_caps, &proof.final_poly, proof.pow_witness, inst.shape.k, &inst.shape.params.config, None, None)
}

fn caps_of<C: GenericConfig<D, F = F>>(inst: &Instance<C>) -> Vec<MerkleCap<F, C::Hasher>> {
    inst.batches.iter().map(|b| b.merkle_tree.cap.clone()).collect()
}

/// Verdict of the real verifier: Ok(()) / Err(reason class) / panic.
fn verdict<C: GenericConfig<D, F = F>>(inst: &Instance<C>, openings: &FriOpenings<F, D>, ch: &FriChallenges<F, D>, caps: &[MerkleCap<F, C::Hasher>], proof: &FriProof<F, C::Hasher, D>) -> Result<(), String> {
    match catch(|| verify_fri_proof::<F, C, D>(&inst.instance, openings, ch, caps, proof, &inst.shape.params)) {
        Ok(Ok(())) => Ok(()),
        Ok(Err(e)) => Err(format!("Err({})", msg_class(e.to_string().lines().next().unwrap_or("")).chars().take(70).collect::<String>())),
        Err(p) => Err(format!("panic@{}({})", norm_loc(&p.loc), msg_class(&p.msg).chars().take(40).collect::<String>())),
    }
}

fn must_reject(acc: &mut Acc, class: &str, res: Result<(), String>, ctx: Value) {
    acc.evals += 1;
    acc.keys.push(class.to_string());
    match res {
        Ok(()) => acc.fails.push((format!("fri.accepted.{class}"), ctx)),
        Err(r) => *acc.reasons.entry(format!("{class} -> {r}")).or_insert(0) += 1,
    }
}

fn honest_proof<C: GenericConfig<D, F = F>>(inst: &Instance<C>, openings: &FriOpenings<F, D>) -> Result<FriProof<F, C::Hasher, D>, String> {
    let mut ch = transcript_start(inst, openings);
    let refs: Vec<&PolynomialBatch<F, C, D>> = inst.batches.iter().collect();
    catch(|| PolynomialBatch::<F, C, D>::prove_openings(&inst.instance, &refs, &mut ch, &inst.shape.params, None, None, &mut TimingTree::default())).map_err(|p| format!("{} @ {}", p.msg, norm_loc(&p.loc)))
}

/// The combined polynomial the prover is supposed to commit to, for claimed openings `vals`,
/// as values on the LDE coset (pointwise rational function) — used by adversarial first layers.
fn combined_values_on_lde<C: GenericConfig<D, F = F>>(inst: &Instance<C>, alpha: FE, vals: &[Vec<FE>]) -> Vec<FE> {
    let lde_bits = inst.shape.params.lde_bits();
    let n = 1usize << lde_bits;
    let g = F::primitive_root_of_unity(lde_bits);
    let shift = F::coset_shift();
    // evaluate every polynomial on the coset (natural order) by FFT of the padded coefficients
    let evals: Vec<Vec<Vec<F>>> = inst
        .batches
        .iter()
        .map(|b| b.polynomials.iter().map(|p| p.lde(inst.shape.params.config.rate_bits).coset_fft(shift).values).collect())
        .collect();
    let mut out = vec![FE::ZERO; n];
    let mut x = shift;
    for i in 0..n {
        // same combination order as the verifier: reduce with increasing powers, shift between batches
        let mut sum = FE::ZERO;
        let mut alpha_pow_count = 0usize;
        let _ = alpha_pow_count;
        for (b, batch) in inst.instance.batches.iter().enumerate() {
            let mut red = FE::ZERO;
            let mut red_open = FE::ZERO;
            for (j, p) in batch.polynomials.iter().enumerate().rev() {
                red = red * alpha + FE::from(evals[p.oracle_index][p.polynomial_index][i]);
                red_open = red_open * alpha + vals[b][j];
            }
            let cnt = batch.polynomials.len();
            sum = sum * alpha.exp_u64(cnt as u64) + (red - red_open) / (FE::from(x) - batch.point);
            alpha_pow_count += cnt;
        }
        out[i] = sum;
        x *= g;
    }
    out
}

fn case_single<C: GenericConfig<D, F = F>>(seed: u64, case: u64, quick: bool, hname: &str) -> Acc
where
    <C::Hasher as Hasher<F>>::Hash: HashTamper,
{
    let mut acc = Acc::default();
    let mut rng = crate::mon::case_rng(seed, 5_001, case);
    let strong = case % 3 == 0;
    let shape = match gen_shape(&mut rng, quick, strong, &mut acc) {
        Some(s) => s,
        None => return acc,
    };
    let inst = gen_instance::<C>(&mut rng, shape);
    let ctx = json!({"case": case, "hasher": hname, "shape": inst.shape.desc, "points": inst.instance.batches.len()});
    acc.keys.push(format!("shape:{}", inst.shape.desc));
    acc.c(&format!("strategy.{}", format!("{:?}", inst.shape.params.config.reduction_strategy).split('(').next().unwrap()));
    acc.c(&format!("degree_bits.{}", inst.shape.k));
    acc.c(&format!("layers.{}", inst.shape.params.reduction_arity_bits.len()));
    let caps = caps_of(&inst);
    // ---- positive -----------------------------------------------------------------------------
    let openings = openings_of(&inst.true_openings);
    let proof = match honest_proof(&inst, &openings) {
        Ok(p) => p,
        Err(e) => {
            acc.evals += 1;
            acc.fails.push(("fri.prover_failed_on_admissible_instance".into(), json!({"ctx": ctx, "panic": e})));
            return acc;
        }
    };
    let ch = challenges_for(&inst, &openings, &proof);
    acc.evals += 1;
    acc.c("positive_instances");
    let final_len = 1usize << (inst.shape.k - inst.shape.params.total_arities());
    if proof.final_poly.coeffs.len() != final_len || proof.commit_phase_merkle_caps.len() != inst.shape.params.reduction_arity_bits.len() {
        acc.fails.push(("fri.proof_shape_differs_from_advertised".into(), json!({"ctx": ctx, "final_poly_len": proof.final_poly.coeffs.len(), "advertised": final_len})));
    }
    if let Err(r) = verdict(&inst, &openings, &ch, &caps, &proof) {
        acc.fails.push(("fri.rejected_true_openings".into(), json!({"ctx": ctx, "reason": r})));
        return acc;
    }
    // ---- negative: wrong opening, honest prover, challenges recomputed --------------------------
    for _ in 0..2 {
        let mut vals = inst.true_openings.clone();
        let b = rng.gen_range(0..vals.len());
        if vals[b].is_empty() {
            continue;
        }
        let j = rng.gen_range(0..vals[b].len());
        vals[b][j] += FE::from(F(rng.gen_range(1..P)));
        let op2 = openings_of(&vals);
        if let Ok(p2) = honest_proof(&inst, &op2) {
            let ch2 = challenges_for(&inst, &op2, &p2);
            must_reject(&mut acc, "wrong_opening.honest_prover", verdict(&inst, &op2, &ch2, &caps, &p2), ctx.clone());
        }
    }
    // ---- negative: adversarial first layers through the real commit/query code -----------------
    if strong {
        // (i) false opening, first layer = the true rational function for it (consistent with the leaves, not low degree)
        let mut vals = inst.true_openings.clone();
        let b = rng.gen_range(0..vals.len());
        if !vals[b].is_empty() {
            let j = rng.gen_range(0..vals[b].len());
            vals[b][j] += FE::from(F(rng.gen_range(1..P)));
            let op2 = openings_of(&vals);
            let mut chp = transcript_start(&inst, &op2);
            let alpha = chp.get_extension_challenge::<D>();
            let values = combined_values_on_lde(&inst, alpha, &vals);
            let coeffs = PolynomialValues::new(values.clone()).coset_ifft(F::coset_shift().into());
            let trees: Vec<_> = inst.batches.iter().map(|b| &b.merkle_tree).collect();
            let res = catch(|| fri_proof::<F, C, D>(&trees, coeffs, PolynomialValues::new(values), &mut chp, &inst.shape.params, None, None, &mut TimingTree::default()));
            match res {
                Ok(p2) => {
                    let ch2 = challenges_for(&inst, &op2, &p2);
                    must_reject(&mut acc, "false_opening.first_layer_is_the_rational_function", verdict(&inst, &op2, &ch2, &caps, &p2), ctx.clone());
                }
                Err(p) => *acc.reasons.entry(format!("false_opening.first_layer_is_the_rational_function -> prover refused ({})", msg_class(&p.msg).chars().take(50).collect::<String>())).or_insert(0) += 1,
            }
        }
        // (ii) true openings, first layer = honest quotient + another low-degree polynomial
        {
            let mut chp = transcript_start(&inst, &openings);
            let alpha = chp.get_extension_challenge::<D>();
            let mut values = combined_values_on_lde(&inst, alpha, &inst.true_openings);
            // sanity of the harness's own combination: it must be low degree for true openings
            let c0 = PolynomialValues::new(values.clone()).coset_ifft(F::coset_shift().into());
            let n = 1usize << inst.shape.k;
            if c0.coeffs[n..].iter().any(|x| *x != FE::ZERO) {
                acc.inconclusive.push("harness: recomputed combined polynomial for true openings is not low degree".into());
            } else {
                let mut h = vec![FE::ZERO; values.len()];
                let d = rng.gen_range(1..=n);
                for x in h.iter_mut().take(d) {
                    *x = rand_ext(&mut rng);
                }
                let hv = PolynomialCoeffs::new(h).coset_fft(F::coset_shift().into());
                for (v, a) in values.iter_mut().zip(hv.values.iter()) {
                    *v += *a;
                }
                let coeffs = PolynomialValues::new(values.clone()).coset_ifft(F::coset_shift().into());
                let trees: Vec<_> = inst.batches.iter().map(|b| &b.merkle_tree).collect();
                if let Ok(p2) = catch(|| fri_proof::<F, C, D>(&trees, coeffs, PolynomialValues::new(values), &mut chp, &inst.shape.params, None, None, &mut TimingTree::default())) {
                    let ch2 = challenges_for(&inst, &openings, &p2);
                    must_reject(&mut acc, "first_layer_differs_from_the_committed_oracles(low degree)", verdict(&inst, &openings, &ch2, &caps, &p2), ctx.clone());
                }
            }
        }
    }
    // ---- negative: insufficient grinding, everything else fixed ---------------------------------
    let pow_bits = inst.shape.params.config.proof_of_work_bits;
    if pow_bits > 0 {
        let bad = FriChallenges { fri_alpha: ch.fri_alpha, fri_betas: ch.fri_betas.clone(), fri_pow_response: F((1u64 << (64 - pow_bits)) | rng.gen_range(0..1u64 << 20)), fri_query_indices: ch.fri_query_indices.clone() };
        must_reject(&mut acc, "pow_response_with_too_few_leading_zeros(fixed challenges)", verdict(&inst, &openings, &bad, &caps, &proof), ctx.clone());
    }
    // ---- negative: every element edit under FIXED challenges -----------------------------------
    let cap_h = inst.shape.params.config.cap_height;
    let n_slots = {
        let mut q = proof.clone();
        let mut n = 0usize;
        tamper::walk_fri::<C::Hasher>(&mut q, &mut |_, _| n += 1);
        n
    };
    let stride = if quick { (n_slots / 250).max(1) } else { (n_slots / 1500).max(1) };
    let offset = rng.gen_range(0..stride);
    // commit-phase cap entries that some query path ends in (those are inputs of fixed-challenge
    // verification; the others are legitimately unread)
    let mut used_cap_entries: std::collections::HashSet<(usize, usize)> = Default::default();
    {
        let lde_bits = inst.shape.params.lde_bits();
        for &x in ch.fri_query_indices.iter() {
            let mut idx = x;
            let mut bits = lde_bits;
            for (layer, &a) in inst.shape.params.reduction_arity_bits.iter().enumerate() {
                let coset = idx >> a;
                bits -= a;
                used_cap_entries.insert((layer, coset >> (bits - cap_h.min(bits))));
                idx = coset;
            }
        }
    }
    let cap_slot_of: Vec<(usize, usize)> = proof.commit_phase_merkle_caps.iter().enumerate().flat_map(|(l, c)| (0..c.0.len()).map(move |e| (l, e))).collect();
    // every used cap entry is edited once, in addition to the stride sample
    let mut ks: Vec<usize> = (0..cap_slot_of.len()).filter(|i| used_cap_entries.contains(&cap_slot_of[*i])).collect();
    let mut kk = offset;
    while kk < n_slots {
        ks.push(kk);
        kk += stride;
    }
    for k in ks {
        let mut q = proof.clone();
        let mut i = 0usize;
        let mut class = "";
        let mode = (k % 5) as u8;
        let r: u64 = rng.gen();
        tamper::walk_fri::<C::Hasher>(&mut q, &mut |name, slot: Slot<<C::Hasher as Hasher<F>>::Hash>| {
            if i == k {
                class = name;
                tamper::tamper_slot(slot, mode, r);
            }
            i += 1;
        });
        if class == "fri.pow_witness" {
            // not an input of the fixed-challenge verification
            continue;
        }
        if class == "fri.commit_phase_cap" && !used_cap_entries.contains(&cap_slot_of[k]) {
            // an entry no query path ends in is legitimately unread when the challenges are fixed
            acc.c("fixed_challenges.unused_cap_entries_skipped");
            continue;
        }
        must_reject(&mut acc, &format!("fixed_challenges.{class}"), verdict(&inst, &openings, &ch, &caps, &q), json!({"ctx": ctx, "slot": k, "mode": mode}));
    }
    // openings and initial caps under fixed challenges
    for b in 0..inst.true_openings.len() {
        if inst.true_openings[b].is_empty() {
            continue;
        }
        let mut vals = inst.true_openings.clone();
        let j = rng.gen_range(0..vals[b].len());
        vals[b][j] += FE::from_basefield_array([F::ZERO, F(rng.gen_range(1..P))]);
        must_reject(&mut acc, "fixed_challenges.opening_value", verdict(&inst, &openings_of(&vals), &ch, &caps, &proof), ctx.clone());
    }
    if cap_h == 0 {
        for o in 0..caps.len() {
            let mut caps2 = caps.clone();
            caps2[o].0[0].bump(0, rng.gen());
            must_reject(&mut acc, "fixed_challenges.initial_cap", verdict(&inst, &openings, &ch, &caps2, &proof), ctx.clone());
        }
    }
    // list-level edits under fixed challenges
    for site in tamper::fri_list_sites::<C::Hasher>(&proof, 2) {
        for op in [tamper::ListOp::DropLast, tamper::ListOp::Empty, tamper::ListOp::DupLast] {
            let mut q = proof.clone();
            if !tamper::apply_fri_list_op::<C::Hasher>(&mut q, &site, op) {
                continue;
            }
            let sname = format!("{site:?}").replace(|c: char| c.is_ascii_digit() || c == '(' || c == ')' || c == ',' || c == ' ', "");
            if site == tamper::ListSite::CommitCaps && op == tamper::ListOp::DupLast {
                // A surplus commit-phase cap is read by nobody once the challenges are fixed: it is no
                // inconsistency between leaf, path, layers and final polynomial. What binds it is the
                // transcript (it is absorbed and yields one more beta), so it is judged with the
                // challenges recomputed from the edited proof.
                let ch2 = challenges_for(&inst, &openings, &q);
                // Only meaningful on position-sensitive instances: if every committed polynomial is
                // constant, all leaves of every tree coincide, Merkle paths verify at any index and the
                // honest proof itself is (correctly) accepted under re-randomised challenges.
                let generic = inst.batches.iter().any(|b| b.polynomials.iter().any(|p| p.coeffs.iter().filter(|x| **x != F::ZERO).count() >= 2));
                if !generic || ch2.fri_query_indices == ch.fri_query_indices {
                    acc.c("surplus_cap_case_skipped(degenerate instance: all committed polynomials constant)");
                    continue;
                }
                must_reject(&mut acc, "recomputed_challenges.list.CommitCaps.DupLast", verdict(&inst, &openings, &ch2, &caps, &q), ctx.clone());
                continue;
            }
            must_reject(&mut acc, &format!("fixed_challenges.list.{sname}.{op:?}"), verdict(&inst, &openings, &ch, &caps, &q), ctx.clone());
        }
    }
    if case % 20 == 0 {
        acc.sample = Some(json!({"kind": "single", "ctx": ctx, "proof_elements": n_slots, "element_edit_stride": stride}));
    }
    acc
}

/// Batched FRI over polynomials of different degrees.
fn case_batch(seed: u64, case: u64, quick: bool) -> Acc {
    type C = PoseidonGoldilocksConfig;
    let mut acc = Acc::default();
    let mut rng = crate::mon::case_rng(seed, 5_002, case);
    let bset = gen::boundary_set();
    // schedule first, then degrees at layer boundaries
    let n_layers = rng.gen_range(1..=3);
    let arities: Vec<usize> = (0..n_layers).map(|_| rng.gen_range(1..=3)).collect();
    let total: usize = arities.iter().sum();
    let k0 = total + rng.gen_range(0..=if quick { 3 } else { 5 });
    if k0 < 2 {
        return acc;
    }
    let rate_bits = rng.gen_range(1..=3);
    let cap_height = rng.gen_range(0..=(k0 + rate_bits - total).min(3));
    let num_queries = rng.gen_range(4..20);
    let params = FriParams { config: FriConfig { rate_bits, cap_height, proof_of_work_bits: rng.gen_range(0..4), reduction_strategy: FriReductionStrategy::Fixed(arities.clone()), num_query_rounds: num_queries }, hiding: false, degree_bits: k0, reduction_arity_bits: arities.clone() };
    // candidate degrees: k0 and k0 minus partial sums
    let mut layer_bits = vec![k0];
    let mut acc_bits = k0;
    for a in arities.iter().take(n_layers - 1) {
        acc_bits -= a;
        layer_bits.push(acc_bits);
    }
    let mut degs: Vec<usize> = vec![k0];
    for lb in layer_bits.iter().skip(1) {
        if rng.gen_bool(0.7) && *lb >= 1 {
            degs.push(*lb);
        }
    }
    // polynomials per degree
    let mut polys: Vec<PolynomialCoeffs<F>> = vec![];
    let mut poly_deg: Vec<usize> = vec![];
    for d in degs.iter() {
        for _ in 0..rng.gen_range(1..=3) {
            polys.push(PolynomialCoeffs::new((0..1usize << d).map(|_| gen::f_canon(&mut rng, &bset)).collect()));
            poly_deg.push(*d);
        }
    }
    let ctx = json!({"case": case, "degree_bits": degs, "schedule": arities, "rate_bits": rate_bits, "cap_height": cap_height, "queries": num_queries, "polys": polys.len()});
    acc.keys.push(format!("batch:{ctx}"));
    let tables: Vec<Option<&plonky2::field::fft::FftRootTable<F>>> = vec![None; polys.len()];
    let oracle = match catch(|| BatchFriOracle::<F, C, D>::from_coeffs(polys.clone(), rate_bits, false, cap_height, &mut TimingTree::default(), &tables)) {
        Ok(o) => o,
        Err(p) => {
            acc.c(&format!("batch_oracle_refused: {}", msg_class(&p.msg).chars().take(50).collect::<String>()));
            return acc;
        }
    };
    let zeta = rand_ext(&mut rng);
    let eta = rand_ext(&mut rng);
    let mut instances = vec![];
    let mut true_vals: Vec<Vec<Vec<FE>>> = vec![];
    for d in degs.iter() {
        let idxs: Vec<usize> = (0..polys.len()).filter(|i| poly_deg[*i] == *d).collect();
        let infos: Vec<FriPolynomialInfo> = idxs.iter().map(|i| FriPolynomialInfo { oracle_index: 0, polynomial_index: *i }).collect();
        let mut batches = vec![FriBatchInfo { point: zeta, polynomials: infos.clone() }];
        let mut vals = vec![idxs.iter().map(|i| ref_eval(&polys[*i].coeffs, zeta)).collect::<Vec<_>>()];
        if rng.gen_bool(0.5) {
            let sub: Vec<usize> = idxs.iter().copied().filter(|_| rng.gen_bool(0.6)).collect();
            if !sub.is_empty() {
                batches.push(FriBatchInfo { point: eta, polynomials: sub.iter().map(|i| FriPolynomialInfo { oracle_index: 0, polynomial_index: *i }).collect() });
                vals.push(sub.iter().map(|i| ref_eval(&polys[*i].coeffs, eta)).collect());
            }
        }
        instances.push(FriInstanceInfo { oracles: vec![FriOracleInfo { num_polys: idxs.len(), blinding: false }], batches });
        true_vals.push(vals);
    }
    let open = |tv: &Vec<Vec<Vec<FE>>>| -> Vec<FriOpenings<F, D>> { tv.iter().map(|v| openings_of(v)).collect() };
    let start = |ops: &Vec<FriOpenings<F, D>>| {
        let mut ch = Challenger::<F, <C as GenericConfig<D>>::Hasher>::new();
        ch.observe_cap::<<C as GenericConfig<D>>::Hasher>(&oracle.batch_merkle_tree.cap);
        for o in ops {
            ch.observe_openings(o);
        }
        ch
    };
    let prove = |ops: &Vec<FriOpenings<F, D>>| {
        let mut ch = start(ops);
        catch(|| BatchFriOracle::<F, C, D>::prove_openings(&degs, &instances, &[&oracle], &mut ch, &params, &mut TimingTree::default()))
    };
    let chall = |ops: &Vec<FriOpenings<F, D>>, p: &FriProof<F, <C as GenericConfig<D>>::Hasher, D>| {
        let mut ch = start(ops);
        ch.fri_challenges::<C, D>(&p.commit_phase_merkle_caps, &p.final_poly, p.pow_witness, k0, &params.config, None, None)
    };
    let ver = |ops: &Vec<FriOpenings<F, D>>, ch: &FriChallenges<F, D>, p: &FriProof<F, <C as GenericConfig<D>>::Hasher, D>| -> Result<(), String> {
        match catch(|| verify_batch_fri_proof::<F, C, D>(&degs, &instances, ops, ch, &[oracle.batch_merkle_tree.cap.clone()], p, &params)) {
            Ok(Ok(())) => Ok(()),
            Ok(Err(e)) => Err(format!("Err({})", msg_class(e.to_string().lines().next().unwrap_or("")).chars().take(70).collect::<String>())),
            Err(p) => Err(format!("panic@{}({})", norm_loc(&p.loc), msg_class(&p.msg).chars().take(40).collect::<String>())),
        }
    };
    let ops = open(&true_vals);
    let proof = match prove(&ops) {
        Ok(p) => p,
        Err(p) => {
            acc.evals += 1;
            acc.fails.push(("batch_fri.prover_failed_on_admissible_instance".into(), json!({"ctx": ctx, "panic": p.msg, "loc": norm_loc(&p.loc)})));
            return acc;
        }
    };
    let ch = chall(&ops, &proof);
    acc.evals += 1;
    acc.c("batch_positive_instances");
    acc.c(&format!("batch_distinct_degrees.{}", degs.len()));
    if let Err(r) = ver(&ops, &ch, &proof) {
        acc.fails.push(("batch_fri.rejected_true_openings".into(), json!({"ctx": ctx, "reason": r})));
        return acc;
    }
    // wrong opening in each instance (recomputed challenges)
    for i in 0..true_vals.len() {
        let mut tv = true_vals.clone();
        let b = rng.gen_range(0..tv[i].len());
        let j = rng.gen_range(0..tv[i][b].len());
        tv[i][b][j] += FE::from(F(rng.gen_range(1..P)));
        let ops2 = open(&tv);
        if let Ok(p2) = prove(&ops2) {
            let ch2 = chall(&ops2, &p2);
            must_reject(&mut acc, &format!("batch.wrong_opening.honest_prover.instance_{}_of_{}", i, true_vals.len()), ver(&ops2, &ch2, &p2), ctx.clone());
        }
        // and under fixed challenges
        must_reject(&mut acc, &format!("batch.fixed_challenges.opening_value.instance_{}_of_{}", i, true_vals.len()), ver(&ops2, &ch, &proof), ctx.clone());
    }
    // element edits under fixed challenges
    let n_slots = {
        let mut q = proof.clone();
        let mut n = 0usize;
        tamper::walk_fri::<<C as GenericConfig<D>>::Hasher>(&mut q, &mut |_, _| n += 1);
        n
    };
    let stride = (n_slots / if quick { 150 } else { 800 }).max(1);
    let mut k = rng.gen_range(0..stride);
    while k < n_slots {
        let mut q = proof.clone();
        let mut i = 0usize;
        let mut class = "";
        let r: u64 = rng.gen();
        tamper::walk_fri::<<C as GenericConfig<D>>::Hasher>(&mut q, &mut |name, slot| {
            if i == k {
                class = name;
                tamper::tamper_slot(slot, (k % 5) as u8, r);
            }
            i += 1;
        });
        k += stride;
        if class == "fri.pow_witness" || (class == "fri.commit_phase_cap" && cap_height > 0) {
            continue;
        }
        must_reject(&mut acc, &format!("batch.fixed_challenges.{class}"), ver(&ops, &ch, &q), json!({"ctx": ctx, "slot": k - stride}));
    }
    if case % 20 == 0 {
        acc.sample = Some(json!({"kind": "batch", "ctx": ctx, "proof_elements": n_slots}));
    }
    acc
}

pub fn run(tier: Tier) -> ! {
    let mut run = Run::new("C05", "fault_enumeration", tier);
    run.rule("stand-alone FRI instances on the public API: 1-4 committed oracles x 1-6 polynomials (uniform, boundary-biased, zero, constant, low-degree), salted or not, degrees 2^2..2^10, rate 1-3, cap heights 0-4, 1-3 opening points with random subsets, all three reduction strategies, Poseidon and Keccak. Openings are computed by Horner in the u128 reference model. Positive: verify_fri_proof accepts, proof has the advertised final length and layer count, ConstantArityBits schedules obey their contract. Negative: wrong opening (honest prover, challenges recomputed); first layer committed to the true rational function of a false opening / to the honest quotient plus another low-degree polynomial, pushed through the real fri_proof (>= 56 bits of query soundness configured for these); pow response with too few leading zeros; under FIXED challenges a stride sample over every element position (leaves, siblings, coset evaluations, final coefficients), every opening batch, initial caps, and every list x {drop, empty, duplicate}. Batched variant: polynomials of up to 4 different degrees entering at layer boundaries, wrong opening per degree group, element edits under fixed challenges. Oracle: Err for every negative. distinct = (shape) + (deviation class).");
    run.assume("statistical soundness of the query phase: adversarial-first-layer cases are configured so that a correct verifier accepts with probability < 2^-50 per case");
    run.assume("admissible stand-alone parameters mirror the circuit builder's checks: total arity <= degree bits and <= degree bits + rate bits - cap height");
    let quick = run.quick();
    let seed = run.seed;
    let n_single: u64 = run.pick(260, 5000);
    let n_batch: u64 = run.pick(120, 2500);
    let only = run.only_case;
    let accs: Vec<(u64, Acc)> = (0..n_single + n_batch)
        .into_par_iter()
        .filter(|c| only.map(|o| o == *c).unwrap_or(true))
        .map(|case| {
            let a = if case >= n_single {
                case_batch(seed, case, quick)
            } else if case % 4 == 3 {
                case_single::<KeccakGoldilocksConfig>(seed, case, quick, "keccak")
            } else {
                case_single::<PoseidonGoldilocksConfig>(seed, case, quick, "poseidon")
            };
            (case, a)
        })
        .collect();
    let mut reasons: BTreeMap<String, u64> = BTreeMap::new();
    for (case, acc) in accs {
        run.evals(acc.evals);
        for (k, v) in acc.counters {
            run.count(&k, v);
        }
        for (k, v) in acc.reasons {
            *reasons.entry(k).or_insert(0) += v;
        }
        for k in acc.keys {
            run.nontrivial(k);
        }
        if let Some(s) = acc.sample {
            run.sample(s);
        }
        for w in acc.inconclusive {
            run.inconclusive(&w);
        }
        for (sig, d) in acc.fails {
            run.violation(&sig.replace(|c: char| c.is_ascii_digit(), "#"), case, d);
        }
    }
    run.set_extra("rejections_by_deviation_class_and_reason", json!(reasons));
    if run.counter("positive_instances") == 0 || run.counter("batch_positive_instances") == 0 {
        run.inconclusive("no positive instance was produced");
    }
    run.finish()
}
