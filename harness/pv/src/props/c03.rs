//! C03 — accepted proofs are bound to each of their elements and to their circuit.

use std::collections::BTreeMap;

use plonky2::field::goldilocks_field::GoldilocksField as F;
use plonky2::plonk::config::{GenericConfig, Hasher, KeccakGoldilocksConfig, PoseidonGoldilocksConfig};
use plonky2::plonk::proof::ProofWithPublicInputs;
use rand::Rng;
use rayon::prelude::*;
use serde_json::{json, Value};

use crate::circ::{self, GenOpts, Proven, D};
use crate::gen;
use crate::mon::{catch, Run, Tier};
use crate::tamper::{self, HashTamper, ListOp};

pub fn pool_member<C: GenericConfig<D, F = F>>(seed: u64, stream: u64, idx: u64, flavour: u32) -> Result<Proven<C>, String> {
    let bset = gen::boundary_set();
    let mut rng = crate::mon::case_rng(seed, stream, idx);
    let opts = GenOpts { n_ops: rng.gen_range(10..80), lookups: flavour % 2 == 1, hashing: flavour % 3 == 0, extension: true, max_table_len: 40, only_base2: false };
    let (prog, inputs) = circ::gen_program(&mut rng, &bset, &opts);
    let mut config = circ::fast_config();
    match flavour % 5 {
        1 => config.zero_knowledge = true,
        2 => {
            config.fri_config.cap_height = 1;
            config.fri_config.reduction_strategy = plonky2::fri::reduction_strategies::FriReductionStrategy::ConstantArityBits(2, 1);
            config.num_challenges = 3;
        }
        3 => {
            config.fri_config.reduction_strategy = plonky2::fri::reduction_strategies::FriReductionStrategy::MinSize(Some(3));
            config.fri_config.cap_height = 0;
            config.num_challenges = 1;
        }
        4 => {
            config.fri_config.num_query_rounds = 12;
            config.fri_config.proof_of_work_bits = 0;
            config.security_bits = 36;
            config.fri_config.cap_height = 3;
        }
        _ => {}
    }
    circ::make_proven::<C>(prog, inputs, config)
}

struct Acc {
    evals: u64,
    by_class: BTreeMap<String, u64>,
    fails: Vec<(String, Value)>,
}

fn verify_rejects<C: GenericConfig<D, F = F>>(pr: &Proven<C>, p: ProofWithPublicInputs<F, C, D>) -> bool {
    !matches!(catch(|| pr.built.data.verify(p)), Ok(Ok(())))
}

fn tamper_walk<C: GenericConfig<D, F = F>>(run: &mut Run, pr: &Proven<C>, pidx: u64, modes: &[u8], desc: &Value)
where
    <C::Hasher as Hasher<F>>::Hash: HashTamper,
{
    let n = tamper::count_slots::<C>(&pr.proof);
    let seed = run.seed;
    // element positions x replacement values (exhaustive over positions)
    let accs: Vec<Acc> = (0..n)
        .into_par_iter()
        .map(|k| {
            let mut acc = Acc { evals: 0, by_class: BTreeMap::new(), fails: vec![] };
            let mut rng = crate::mon::case_rng(seed, 3_100 + pidx, k as u64);
            for &mode in modes {
                let (q, class) = tamper::tamper_at::<C>(&pr.proof, k, mode, rng.gen());
                acc.evals += 1;
                *acc.by_class.entry(class.to_string()).or_insert(0) += 1;
                if q == pr.proof {
                    acc.fails.push(("harness.tamper_noop".into(), json!({"slot": k, "class": class})));
                    continue;
                }
                if !verify_rejects(pr, q) {
                    acc.fails.push((format!("verify.accepted_tampered.{class}"), json!({"proof": desc, "slot": k, "class": class, "mode": mode})));
                }
            }
            acc
        })
        .collect();
    for a in accs {
        run.evals(a.evals);
        for (k, v) in a.by_class {
            run.nontrivial(("elem", pidx, k.clone()));
            run.count(&format!("element_tampers.{k}"), v);
        }
        for (sig, d) in a.fails {
            if sig.starts_with("harness.") {
                run.inconclusive(&sig);
            } else {
                run.violation(&sig, pidx, d);
            }
        }
    }
    run.count("element_positions_enumerated", n as u64);
    // list operations
    let sites = tamper::list_sites::<C>(&pr.proof, 3);
    for site in &sites {
        for op in [ListOp::DropLast, ListOp::Empty, ListOp::DupLast] {
            let mut q = pr.proof.clone();
            if !tamper::apply_list_op::<C>(&mut q, site, op) {
                continue;
            }
            run.eval();
            run.nontrivial(("list", pidx, format!("{site:?}{op:?}")));
            run.count("list_tampers", 1);
            if !verify_rejects(pr, q) {
                run.violation(&format!("verify.accepted_list_tamper.{site:?}.{op:?}").replace(|c: char| c.is_ascii_digit(), "#"), pidx, json!({"proof": desc, "site": format!("{site:?}"), "op": format!("{op:?}")}));
            }
        }
    }
    // compressed form
    let cp = match catch(|| pr.built.data.compress(pr.proof.clone())) {
        Ok(Ok(c)) => c,
        other => {
            run.violation("compress.failed_on_honest_proof", pidx, json!({"proof": desc, "err": format!("{:?}", other.map(|r| r.map(|_| ())).map_err(|p| p.msg))}));
            return;
        }
    };
    let nc = tamper::count_compressed_slots::<C>(&cp);
    let accs: Vec<Acc> = (0..nc)
        .into_par_iter()
        .map(|k| {
            let mut acc = Acc { evals: 0, by_class: BTreeMap::new(), fails: vec![] };
            let mut rng = crate::mon::case_rng(seed, 3_200 + pidx, k as u64);
            let mode = modes[k % modes.len()];
            let (q, class) = tamper::tamper_compressed_at::<C>(&cp, k, mode, rng.gen());
            acc.evals += 1;
            *acc.by_class.entry(class.to_string()).or_insert(0) += 1;
            if matches!(catch(|| pr.built.data.verify_compressed(q)), Ok(Ok(()))) {
                acc.fails.push((format!("verify_compressed.accepted_tampered.{class}"), json!({"proof": desc, "slot": k, "class": class, "mode": mode})));
            }
            acc
        })
        .collect();
    for a in accs {
        run.evals(a.evals);
        for (k, v) in a.by_class {
            run.nontrivial(("celem", pidx, k.clone()));
            run.count(&format!("compressed_element_tampers.{k}"), v);
        }
        for (sig, d) in a.fails {
            run.violation(&sig, pidx, d);
        }
    }
    // the redundant index list: verdict must not change
    for variant in 0..3 {
        let mut q = cp.clone();
        let idx = &mut q.proof.opening_proof.query_round_proofs.indices;
        match variant {
            0 => idx.iter_mut().for_each(|x| *x = x.wrapping_add(1)),
            1 => idx.clear(),
            _ => idx.reverse(),
        }
        run.eval();
        run.count("compressed_indices_edits", 1);
        if !matches!(catch(|| pr.built.data.verify_compressed(q)), Ok(Ok(()))) {
            run.violation("verify_compressed.verdict_depends_on_redundant_indices", pidx, json!({"proof": desc, "variant": variant}));
        }
    }
}

fn describe<C: GenericConfig<D, F = F>>(pr: &Proven<C>, hname: &str) -> Value {
    json!({"hasher": hname, "program": pr.prog.describe(), "config": circ::describe_config(&pr.config), "degree_bits": pr.built.data.common.degree_bits(), "proof_slots": tamper::count_slots::<C>(&pr.proof)})
}

pub fn run(tier: Tier) -> ! {
    let mut run = Run::new("C03", "fault_enumeration", tier);
    run.rule("for each honest proof in a pool (generated programs; flavours: plain, zk, 3 challenges+arity 2, MinSize, 12 queries/cap 3; with/without lookups; Poseidon and Keccak) EVERY field-element / digest position of the proof (public inputs, three caps, all nine opening vectors, every query round's leaves, siblings, coset evaluations, commit-phase caps, final polynomial, pow witness) is replaced by each replacement value (+1, random, 0/1, negation, doubling per tier) and every list gets {drop last, empty, duplicate last}; the same walk on the compressed form through verify_compressed (its redundant index list must NOT change the verdict); each proof is also presented to every other circuit's verifier data. Oracle: verify != Ok. distinct = distinct (proof, position class).");
    run.assume("Schwartz-Zippel / Merkle binding: a changed element that re-randomises challenges is rejected except with probability < 2^-40 per run");
    let quick = run.quick();
    let n_pos = if quick { 6u64 } else { 45 };
    let n_kec = if quick { 2u64 } else { 15 };
    let modes: Vec<u8> = if quick { vec![0, 1] } else { vec![0, 1, 2, 3, 4] };
    let seed = run.seed;
    let mut pos_pool = vec![];
    for i in 0..n_pos {
        match pool_member::<PoseidonGoldilocksConfig>(seed, 3_001, i, i as u32) {
            Ok(p) => pos_pool.push(p),
            Err(e) => run.count(&format!("pool_member_not_built: {}", crate::mon::msg_class(&e)), 1),
        }
    }
    let mut kec_pool = vec![];
    for i in 0..n_kec {
        match pool_member::<KeccakGoldilocksConfig>(seed, 3_002, i, i as u32 + 1) {
            Ok(p) => kec_pool.push(p),
            Err(e) => run.count(&format!("pool_member_not_built: {}", crate::mon::msg_class(&e)), 1),
        }
    }
    // one more member whose query indices are bound to repeat (40 queries over a 2^6..2^7-point domain):
    // every round has to be checked even when its index was already seen
    {
        let bset = gen::boundary_set();
        let mut rng = crate::mon::case_rng(seed, 3_003, 0);
        let opts = GenOpts { n_ops: rng.gen_range(4..14), lookups: false, hashing: false, extension: true, max_table_len: 8, only_base2: false };
        let (prog, inputs) = circ::gen_program(&mut rng, &bset, &opts);
        let mut config = circ::fast_config();
        config.fri_config.num_query_rounds = 40;
        config.fri_config.proof_of_work_bits = 0;
        config.security_bits = 100;
        match circ::make_proven::<PoseidonGoldilocksConfig>(prog, inputs, config) {
            Ok(p) => pos_pool.push(p),
            Err(e) => run.count(&format!("pool_member_not_built: {}", crate::mon::msg_class(&e)), 1),
        }
    }
    for pr in pos_pool.iter() {
        if let Ok(Ok(c)) = catch(|| pr.built.data.compress(pr.proof.clone())) {
            let distinct = c.proof.opening_proof.query_round_proofs.initial_trees_proofs.len();
            let rounds = pr.proof.proof.opening_proof.query_round_proofs.len();
            if distinct < rounds {
                run.count("pool_proofs_with_repeated_query_indices", 1);
                run.count("repeated_query_rounds_in_pool", (rounds - distinct) as u64);
            }
        }
    }
    if run.counter("pool_proofs_with_repeated_query_indices") == 0 && run.only_case.is_none() {
        run.inconclusive("no pool proof has a repeated query index");
    }
    for (i, pr) in pos_pool.iter().enumerate() {
        if run.skip_case(i as u64) {
            continue;
        }
        let d = describe(pr, "poseidon");
        run.sample(d.clone());
        run.nontrivial(("poseidon", i));
        if verify_rejects(pr, pr.proof.clone()) {
            run.inconclusive("honest pool proof rejected (C01's business); skipping");
            continue;
        }
        tamper_walk(&mut run, pr, i as u64, &modes, &d);
    }
    for (i, pr) in kec_pool.iter().enumerate() {
        if run.skip_case(1000 + i as u64) {
            continue;
        }
        let d = describe(pr, "keccak");
        run.sample(d.clone());
        run.nontrivial(("keccak", i));
        if verify_rejects(pr, pr.proof.clone()) {
            run.inconclusive("honest pool proof rejected (C01's business); skipping");
            continue;
        }
        tamper_walk(&mut run, pr, 1000 + i as u64, &modes, &d);
    }
    // cross-circuit: every proof against every other circuit's verifier data
    for (i, a) in pos_pool.iter().enumerate() {
        for (j, b) in pos_pool.iter().enumerate() {
            if i == j {
                continue;
            }
            run.eval();
            run.count("cross_circuit_presentations", 1);
            run.nontrivial(("cross", i, j));
            let vd = b.built.data.verifier_data();
            if matches!(catch(|| vd.verify(a.proof.clone())), Ok(Ok(()))) {
                run.violation("verify.accepted_proof_of_other_circuit", i as u64, json!({"proof_of": describe(a, "poseidon"), "verifier_of": describe(b, "poseidon")}));
            }
        }
    }
    // same-shape sibling circuit: identical program except one constant
    for (i, a) in pos_pool.iter().enumerate().take(if quick { 2 } else { 10 }) {
        let mut prog2 = a.prog.clone();
        if let Some(pos) = prog2.ops.iter().position(|op| matches!(op, circ::Op::Const(c) if *c > 3)) {
            if let circ::Op::Const(c) = &mut prog2.ops[pos] {
                *c += 1;
            }
        } else {
            prog2.ops.push(circ::Op::Const(12345));
        }
        if let Ok(b) = catch(|| circ::build::<PoseidonGoldilocksConfig>(&prog2, &a.config)) {
            let same_shape = b.data.common == a.built.data.common;
            run.eval();
            run.count(if same_shape { "sibling_circuit.same_common_data" } else { "sibling_circuit.different_common_data" }, 1);
            if b.data.verifier_only.circuit_digest != a.built.data.verifier_only.circuit_digest && matches!(catch(|| b.data.verify(a.proof.clone())), Ok(Ok(()))) {
                run.violation("verify.accepted_proof_of_sibling_circuit", i as u64, json!({"proof_of": describe(a, "poseidon")}));
            }
        }
    }
    run.finish()
}
