//! C16 — proof compression is lossless and verification-equivalent.

use std::collections::HashSet;

use plonky2::field::goldilocks_field::GoldilocksField as F;
use plonky2::fri::reduction_strategies::FriReductionStrategy;
use plonky2::plonk::config::{GenericConfig, Hasher, KeccakGoldilocksConfig, PoseidonGoldilocksConfig};
use rand::Rng;
use serde_json::{json, Value};

use crate::circ::{self, GenOpts, Proven, D};
use crate::gen;
use crate::mon::{catch, msg_class, Run, Tier};
use crate::tamper::{self, HashTamper, ListOp};

fn make<C: GenericConfig<D, F = F>>(seed: u64, case: u64) -> Result<Proven<C>, String> {
    let bset = gen::boundary_set();
    let mut rng = crate::mon::case_rng(seed, 16_001, case);
    let opts = GenOpts { n_ops: if rng.gen_bool(0.5) { rng.gen_range(1..40) } else { rng.gen_range(40..260) }, lookups: case % 4 == 1, hashing: case % 5 == 0, extension: true, max_table_len: 30, only_base2: false };
    let (prog, inputs) = circ::gen_program(&mut rng, &bset, &opts);
    let mut config = circ::fast_config();
    // small LDE domains + many queries force repeated indices and shared cosets
    config.fri_config.num_query_rounds = rng.gen_range(20..=84);
    config.fri_config.proof_of_work_bits = rng.gen_range(0..4);
    config.fri_config.cap_height = rng.gen_range(0..=3);
    config.fri_config.reduction_strategy = match rng.gen_range(0..10) {
        0 => FriReductionStrategy::ConstantArityBits(1, 0),
        1 => FriReductionStrategy::ConstantArityBits(2, 1),
        2 => FriReductionStrategy::ConstantArityBits(rng.gen_range(1..=4), rng.gen_range(0..=4)),
        3 => FriReductionStrategy::Fixed(vec![1, 1]),
        4 => FriReductionStrategy::Fixed(vec![2]),
        5 => FriReductionStrategy::MinSize(Some(rng.gen_range(1..=3))),
        6 => FriReductionStrategy::MinSize(None),
        // mixed schedules: consecutive layers of different arity, three and more layers
        7 => FriReductionStrategy::Fixed([vec![2, 1, 1], vec![1, 2, 1], vec![3, 2, 1], vec![1, 1, 2], vec![1, 3, 1, 1], vec![2, 1, 2]][rng.gen_range(0..6)].clone()),
        _ => FriReductionStrategy::Fixed((0..rng.gen_range(0..=4)).map(|_| rng.gen_range(1..=3)).collect()),
    };
    config.zero_knowledge = case % 7 == 3;
    if config.zero_knowledge {
        // Blinding needs (queries x coset size) + openings fresh rows per polynomial *after* the last
        // fold: deep Fixed schedules with many queries push the builder's degree search to 2^25 rows and
        // beyond (tens of GB) or make it give up. Those configurations are C01's subject; here zero
        // knowledge keeps moderate query counts and shallow schedules.
        config.fri_config.num_query_rounds = config.fri_config.num_query_rounds.min(32);
        if let FriReductionStrategy::Fixed(v) = &config.fri_config.reduction_strategy {
            if v.iter().sum::<usize>() > 2 {
                config.fri_config.reduction_strategy = FriReductionStrategy::ConstantArityBits(1 + (case % 2) as usize, 2);
            }
        }
    }
    config.security_bits = 20;
    circ::make_proven::<C>(prog, inputs, config)
}

/// (verify_compressed(compress(q)), decompress(compress(q)) == q). A refusal to compress counts as
/// "not accepted".
fn compressed_verdict<C: GenericConfig<D, F = F>>(data: &plonky2::plonk::circuit_data::CircuitData<F, C, D>, q: &plonky2::plonk::proof::ProofWithPublicInputs<F, C, D>) -> (bool, bool) {
    match catch(|| data.compress(q.clone())) {
        Ok(Ok(c)) => {
            let acc = matches!(catch(|| data.verify_compressed(c.clone())), Ok(Ok(())));
            let lossless = matches!(catch(|| data.decompress(c)), Ok(Ok(d)) if &d == q);
            (acc, lossless)
        }
        _ => (false, true),
    }
}

struct Out {
    evals: u64,
    fails: Vec<(String, Value)>,
    collisions: Vec<(String, u64)>,
    not_built: Option<String>,
    sample: Option<Value>,
    key: Option<String>,
}

fn case_run<C: GenericConfig<D, F = F>>(seed: u64, case: u64, hname: &str, quick: bool) -> Out
where
    <C::Hasher as Hasher<F>>::Hash: HashTamper,
{
    let mut o = Out { evals: 0, fails: vec![], collisions: vec![], not_built: None, sample: None, key: None };
    let pr = match make::<C>(seed, case) {
        Ok(p) => p,
        Err(e) => {
            o.not_built = Some(msg_class(&e));
            return o;
        }
    };
    let data = &pr.built.data;
    let common = &data.common;
    let desc = json!({"hasher": hname, "config": circ::describe_config(&pr.config), "degree_bits": common.degree_bits(), "arities": common.fri_params.reduction_arity_bits});
    o.key = Some(format!("{desc}"));
    // index multiset statistics per layer
    let ch = match catch(|| pr.proof.get_challenges(pr.proof.get_public_inputs_hash(), &data.verifier_only.circuit_digest, common)) {
        Ok(Ok(c)) => c,
        _ => {
            o.fails.push(("get_challenges.failed_on_honest_proof".into(), desc.clone()));
            return o;
        }
    };
    let idx = ch.fri_challenges.fri_query_indices.clone();
    let distinct: HashSet<usize> = idx.iter().copied().collect();
    o.collisions.push(("queries".into(), idx.len() as u64));
    o.collisions.push(("repeated_indices_layer0".into(), (idx.len() - distinct.len()) as u64));
    let mut cur: Vec<usize> = idx.clone();
    for (l, a) in common.fri_params.reduction_arity_bits.iter().enumerate() {
        cur = cur.iter().map(|x| x >> a).collect();
        let d: HashSet<usize> = cur.iter().copied().collect();
        o.collisions.push((format!("shared_cosets_layer{}", l + 1), (cur.len() - d.len()) as u64));
    }
    // 1. round trip and stability
    o.evals += 1;
    let cp = match catch(|| data.compress(pr.proof.clone())) {
        Ok(Ok(c)) => c,
        Ok(Err(e)) => {
            o.fails.push(("compress.error_on_honest_proof".into(), json!({"proof": desc, "err": e.to_string()})));
            return o;
        }
        Err(p) => {
            o.fails.push((format!("compress.panic@{}", crate::mon::norm_loc(&p.loc)), json!({"proof": desc, "panic": p.msg})));
            return o;
        }
    };
    match catch(|| data.decompress(cp.clone())) {
        Ok(Ok(d)) => {
            if d != pr.proof {
                o.fails.push(("decompress_of_compress_differs".into(), json!({"proof": desc})));
            }
            // stability: compress(decompress(compress(p))) == compress(p)
            if let Ok(Ok(cp2)) = catch(|| data.compress(d)) {
                if cp2 != cp {
                    o.fails.push(("compress_not_stable".into(), json!({"proof": desc})));
                }
            }
        }
        Ok(Err(e)) => o.fails.push(("decompress.error_on_honest_compressed".into(), json!({"proof": desc, "err": e.to_string()}))),
        Err(p) => o.fails.push((format!("decompress.panic@{}", crate::mon::norm_loc(&p.loc)), json!({"proof": desc, "panic": p.msg}))),
    }
    let v_plain = matches!(catch(|| data.verify(pr.proof.clone())), Ok(Ok(())));
    let v_comp = matches!(catch(|| data.verify_compressed(cp.clone())), Ok(Ok(())));
    o.evals += 1;
    if !v_plain || !v_comp {
        o.fails.push(("honest.verdicts".into(), json!({"proof": desc, "verify": v_plain, "verify_compressed": v_comp})));
    }
    // 2. verdict equivalence on tampered proofs: tamper BEFORE compression
    let n = tamper::count_slots::<C>(&pr.proof);
    let mut rng = crate::mon::case_rng(seed, 16_002, case);
    let n_t = if quick { 24 } else { 200 };
    for t in 0..n_t {
        let k = rng.gen_range(0..n);
        let (q, class) = tamper::tamper_at::<C>(&pr.proof, k, (t % 5) as u8, rng.gen());
        o.evals += 1;
        let plain = matches!(catch(|| data.verify(q.clone())), Ok(Ok(())));
        let (comp, lossless) = compressed_verdict(data, &q);
        // Compression deduplicates query rounds by index; when a tampered round is a duplicate
        // that compression drops, the compressed proof no longer contains the tampering, and the
        // reference verdict is the one of what the compressed form does contain.
        if plain && !comp {
            o.fails.push((format!("accepted_proof_rejected_after_compression.{class}"), json!({"proof": desc, "slot": k, "class": class})));
        } else if plain != comp && lossless {
            o.fails.push((format!("verdict_differs.tampered_before_compression.{class}"), json!({"proof": desc, "slot": k, "class": class, "verify": plain, "verify_compressed": comp})));
        } else if plain != comp {
            o.collisions.push(("tampered_duplicate_round_dropped_by_compression".into(), 1));
        }
    }
    // list-level tampering before compression
    for site in tamper::list_sites::<C>(&pr.proof, 2) {
        for op in [ListOp::DropLast, ListOp::DupLast] {
            let mut q = pr.proof.clone();
            if !tamper::apply_list_op::<C>(&mut q, &site, op) {
                continue;
            }
            o.evals += 1;
            let plain = matches!(catch(|| data.verify(q.clone())), Ok(Ok(())));
            let (comp, lossless) = compressed_verdict(data, &q);
            if (plain && !comp) || (plain != comp && lossless) {
                o.fails.push((format!("verdict_differs.list_tampered_before_compression.{site:?}.{op:?}").replace(|c: char| c.is_ascii_digit(), "#"), json!({"proof": desc, "verify": plain, "verify_compressed": comp})));
            }
        }
    }
    // 3. tamper the compressed form; compare with the verdict on its decompression when that succeeds
    let nc = tamper::count_compressed_slots::<C>(&cp);
    for t in 0..n_t {
        let k = rng.gen_range(0..nc);
        let (q, class) = tamper::tamper_compressed_at::<C>(&cp, k, (t % 5) as u8, rng.gen());
        o.evals += 1;
        let comp = matches!(catch(|| data.verify_compressed(q.clone())), Ok(Ok(())));
        if let Ok(Ok(d)) = catch(|| data.decompress(q.clone())) {
            let plain = matches!(catch(|| data.verify(d)), Ok(Ok(())));
            if plain != comp {
                o.fails.push((format!("verdict_differs.tampered_compressed_form.{class}"), json!({"proof": desc, "slot": k, "class": class, "verify_of_decompressed": plain, "verify_compressed": comp})));
            }
        } else if comp {
            o.fails.push((format!("verify_compressed.accepted_undecompressable.{class}"), json!({"proof": desc, "slot": k})));
        }
    }
    if case % 11 == 0 {
        o.sample = Some(json!({"proof": desc, "query_indices": idx.iter().take(24).collect::<Vec<_>>(), "distinct_indices": distinct.len()}));
    }
    o
}

pub fn run(tier: Tier) -> ! {
    let mut run = Run::new("C16", "exploration", tier);
    run.rule("proofs over small LDE domains (2^5..2^9 points) with 20..84 query rounds, arity schedules ConstantArityBits(1..4, 0..4), MinSize(None|1..3), Fixed lists incl. mixed arities over 3-4 layers ([2,1,1],[3,2,1],[1,3,1,1],random), cap heights 0..3, with/without lookups and blinding, Poseidon and Keccak, so that queries repeat indices and share cosets at every layer (collisions are counted per layer). Oracles: decompress(compress(p)) == p, compress stable, verify_compressed(compress(p)) == verify(p) for honest proofs and for proofs tampered before compression (elements and lists); tampered compressed forms get the verdict of their decompression. distinct = distinct (config, degree, arity schedule).");
    let quick = run.quick();
    let n: u64 = run.pick(48, 1200);
    let seed = run.seed;
    let only = run.only_case;
    // Cases run in 16 single-threaded worker processes: with one in-process pool, work stealing
    // interleaves many half-finished cases (each holding a circuit and its proofs) and the resident
    // set grows to tens of GB over 2 000 cases.
    let mut total_repeats = 0u64;
    let mut total_shared = 0u64;
    if Run::shard_spec().is_none() && only.is_none() {
        run.run_shards(16, 1, 3 * 3600);
        total_repeats = run.counter("index_multiset_total.repeated");
        total_shared = run.counter("index_multiset_total.shared");
    } else {
        for case in 0..n {
            if !Run::in_shard(case) || only.map(|o| o != case).unwrap_or(false) {
                continue;
            }
            let o = if case % 4 == 2 { case_run::<KeccakGoldilocksConfig>(seed, case, "keccak", quick) } else { case_run::<PoseidonGoldilocksConfig>(seed, case, "poseidon", quick) };
            run.evals(o.evals);
            if let Some(k) = o.key {
                run.nontrivial(k);
            }
            for (k, v) in o.collisions {
                if k.starts_with("repeated") {
                    total_repeats += v;
                    run.count("index_multiset_total.repeated", v);
                }
                if k.starts_with("shared") {
                    total_shared += v;
                    run.count("index_multiset_total.shared", v);
                }
                run.count(&format!("index_multiset.{k}"), v);
            }
            if let Some(e) = o.not_built {
                run.count(&format!("not_built: {e}"), 1);
            }
            if let Some(s) = o.sample {
                run.sample(s);
            }
            for (sig, d) in o.fails {
                run.violation(&sig, case, d);
            }
        }
    }
    if Run::is_sub() {
        run.finish()
    }
    if (total_repeats == 0 || total_shared == 0) && run.only_case.is_none() {
        run.inconclusive("no repeated index / shared coset was observed — the collision paths of compression were not exercised");
    }
    run.finish()
}
