//! C18 — verifiers and proof decoders fail cleanly on malformed input.
//!
//! Supervised worker processes (address-space limit, progress file) run three engines:
//!  (1) structural catalogue: every list of a proof / compressed proof / STARK proof x {drop last,
//!      empty, duplicate last, halve, three entries}, map-key edits and out-of-range indices in
//!      compressed proofs, Option flips in STARK proofs;
//!  (2) byte level: truncations, bit flips, random strings, spliced encodings through the decoders
//!      and then the verifiers;
//!  (3) value level: every accepted decode must equal the original proof.
//! Refuting events: panic (caught, signature = entry point + panic site + message class), process
//! death (abort / stack overflow / allocation failure: reported by the supervisor), Ok for anything
//! that is not the valid proof.

use std::collections::BTreeMap;

use plonky2::field::goldilocks_field::GoldilocksField as F;
use plonky2::iop::challenger::Challenger;
use plonky2::plonk::circuit_data::CircuitData;
use plonky2::plonk::config::{GenericConfig, Hasher, KeccakGoldilocksConfig, PoseidonGoldilocksConfig};
use plonky2::plonk::proof::{CompressedProofWithPublicInputs, ProofWithPublicInputs};
use rand::Rng;
use rand_chacha::ChaCha8Rng;
use serde_json::{json, Value};
use starky::proof::StarkProofWithPublicInputs;
use starky::verifier::{verify_stark_proof, verify_stark_proof_with_challenges};

use crate::circ::{Proven, D};
use crate::mon::{catch, msg_class, norm_loc, Run, Tier};
use crate::props::c03::pool_member;
use crate::props::c09::stark_prove;
use crate::stk::{self, GenStark, Generated};
use crate::tamper::{self, vec_op, HashTamper, ListOp};

type PC = PoseidonGoldilocksConfig;

#[derive(Default)]
struct Acc {
    evals: u64,
    outcomes: BTreeMap<String, u64>,
    fails: Vec<(String, Value)>,
    keys: Vec<String>,
    sample: Option<Value>,
}

const OPS: [ListOp; 5] = [ListOp::DropLast, ListOp::Empty, ListOp::DupLast, ListOp::Halve, ListOp::ToThree];

/// Runs one entry point on one malformed input; `expect_original` = value whose acceptance is fine.
fn observe<T>(acc: &mut Acc, case: u64, entry: &str, class: &str, detail: Value, f: impl FnOnce() -> anyhow::Result<T>, accept_is_violation: bool) -> Option<T> {
    Run::note_current(case, &format!("{entry}.{class}"), &detail);
    acc.evals += 1;
    acc.keys.push(format!("{entry}|{class}"));
    match catch(f) {
        Ok(Ok(v)) => {
            *acc.outcomes.entry(format!("{entry} | Ok")).or_insert(0) += 1;
            if accept_is_violation {
                let e0 = entry_name(entry);
                acc.fails.push((format!("{e0}.accepted_malformed.{}", class_site(class)), json!({"entry": entry, "input_class": class, "detail": detail})));
            }
            Some(v)
        }
        Ok(Err(_)) => {
            *acc.outcomes.entry(format!("{entry} | Err")).or_insert(0) += 1;
            None
        }
        Err(p) => {
            *acc.outcomes.entry(format!("{entry} | PANIC")).or_insert(0) += 1;
            // signature = entry point + input class (the panic site is evidence, not identity: one missing
            // validation surfaces at many sites)
            let e0 = entry_name(entry);
            let sig = format!("{e0}.panic.{}", class_site(class));
            acc.fails.push((sig, json!({"entry": entry, "input_class": class, "panic": p.msg, "site": norm_loc(&p.loc), "message_class": msg_class(&p.msg).chars().take(60).collect::<String>(), "detail": detail})));
            None
        }
    }
}

/// Entry point without the subject tag ("verify[keccak]" -> "verify").
fn entry_name(entry: &str) -> String {
    match (entry.find('['), entry.find(']')) {
        (Some(a), Some(b)) if b > a => format!("{}{}", &entry[..a], &entry[b + 1..]),
        _ => entry.to_string(),
    }
}

/// Input class without the list operation ("Openings.wires.DropLast" -> "Openings.wires").
fn class_site(class: &str) -> String {
    for op in ["DropLast", "Empty", "DupLast", "Halve", "ToThree"] {
        if let Some(x) = class.strip_suffix(&format!(".{op}")) {
            return x.to_string();
        }
    }
    class.to_string()
}

/// The entry with the `k`-th smallest key (mod the size) of a map.
fn nth_mut<V>(m: &mut hashbrown::HashMap<usize, V>, k: usize) -> Option<&mut V> {
    let mut keys: Vec<usize> = m.keys().copied().collect();
    keys.sort_unstable();
    let key = *keys.get(k % keys.len().max(1))?;
    m.get_mut(&key)
}

fn site_name(s: &tamper::ListSite) -> String {
    format!("{s:?}").replace(|c: char| c.is_ascii_digit() || c == '(' || c == ')' || c == ',' || c == ' ', "")
}

fn plonk_structural<C: GenericConfig<D, F = F>>(acc: &mut Acc, case: u64, pr: &Proven<C>, rng: &mut ChaCha8Rng, hname: &str)
where
    <C::Hasher as Hasher<F>>::Hash: HashTamper,
{
    let data: &CircuitData<F, C, D> = &pr.built.data;
    // (1a) uncompressed proof
    for site in tamper::list_sites::<C>(&pr.proof, 2) {
        for op in OPS {
            let mut q = pr.proof.clone();
            if !tamper::apply_list_op::<C>(&mut q, &site, op) {
                continue;
            }
            let class = format!("{}.{op:?}", site_name(&site));
            observe(acc, case, &format!("verify[{hname}]"), &class, json!({}), || data.verify(q.clone()), true);
        }
    }
    // (1b) compressed proof: maps, indices, inner lists
    let cp0 = match catch(|| data.compress(pr.proof.clone())) {
        Ok(Ok(c)) => c,
        _ => return,
    };
    let lde_size = 1usize << (data.common.degree_bits() + data.common.config.fri_config.rate_bits);
    let mut variants: Vec<(String, CompressedProofWithPublicInputs<F, C, D>)> = vec![];
    let pick_a: usize = rng.gen_range(0..1 << 16);
    let pick_b: usize = rng.gen_range(0..1 << 16);
    {
        let mut push = |name: &str, f: &dyn Fn(&mut CompressedProofWithPublicInputs<F, C, D>) -> bool| {
            let mut q = cp0.clone();
            if f(&mut q) {
                variants.push((name.to_string(), q));
            }
        };
        for op in OPS {
            push(&format!("PublicInputs.{op:?}"), &|q| vec_op(&mut q.public_inputs, op));
            push(&format!("WiresCap.{op:?}"), &|q| vec_op(&mut q.proof.wires_cap.0, op));
            push(&format!("ZsCap.{op:?}"), &|q| vec_op(&mut q.proof.plonk_zs_partial_products_cap.0, op));
            push(&format!("QuotientCap.{op:?}"), &|q| vec_op(&mut q.proof.quotient_polys_cap.0, op));
            push(&format!("Openings.wires.{op:?}"), &|q| vec_op(&mut q.proof.openings.wires, op));
            push(&format!("Openings.constants.{op:?}"), &|q| vec_op(&mut q.proof.openings.constants, op));
            push(&format!("Openings.plonk_zs_next.{op:?}"), &|q| vec_op(&mut q.proof.openings.plonk_zs_next, op));
            push(&format!("Openings.quotient_polys.{op:?}"), &|q| vec_op(&mut q.proof.openings.quotient_polys, op));
            push(&format!("Openings.partial_products.{op:?}"), &|q| vec_op(&mut q.proof.openings.partial_products, op));
            push(&format!("CommitCaps.{op:?}"), &|q| vec_op(&mut q.proof.opening_proof.commit_phase_merkle_caps, op));
            push(&format!("CommitCap.{op:?}"), &|q| q.proof.opening_proof.commit_phase_merkle_caps.first_mut().map(|c| vec_op(&mut c.0, op)).unwrap_or(false));
            push(&format!("FinalPoly.{op:?}"), &|q| vec_op(&mut q.proof.opening_proof.final_poly.coeffs, op));
            push(&format!("Indices.{op:?}"), &|q| vec_op(&mut q.proof.opening_proof.query_round_proofs.indices, op));
            push(&format!("StepLayers.{op:?}"), &|q| vec_op(&mut q.proof.opening_proof.query_round_proofs.steps, op));
            // one entry of the initial map and one of a step layer, both drawn per case
            push(&format!("InitialEntry.proofs.{op:?}"), &|q| nth_mut(&mut q.proof.opening_proof.query_round_proofs.initial_trees_proofs, pick_a).map(|e| vec_op(&mut e.evals_proofs, op)).unwrap_or(false));
            push(&format!("InitialEntry.leaf.{op:?}"), &|q| nth_mut(&mut q.proof.opening_proof.query_round_proofs.initial_trees_proofs, pick_a).and_then(|e| { let n = e.evals_proofs.len().max(1); e.evals_proofs.get_mut(pick_b % n) }).map(|e| vec_op(&mut e.0, op)).unwrap_or(false));
            push(&format!("InitialEntry.siblings.{op:?}"), &|q| nth_mut(&mut q.proof.opening_proof.query_round_proofs.initial_trees_proofs, pick_a).and_then(|e| { let n = e.evals_proofs.len().max(1); e.evals_proofs.get_mut(pick_b % n) }).map(|e| vec_op(&mut e.1.siblings, op)).unwrap_or(false));
            push(&format!("StepEntry.evals.{op:?}"), &|q| { let steps = &mut q.proof.opening_proof.query_round_proofs.steps; let n = steps.len().max(1); steps.get_mut(pick_b % n).and_then(|m| nth_mut(m, pick_a)).map(|s| vec_op(&mut s.evals, op)).unwrap_or(false) });
            push(&format!("StepEntry.siblings.{op:?}"), &|q| { let steps = &mut q.proof.opening_proof.query_round_proofs.steps; let n = steps.len().max(1); steps.get_mut(pick_b % n).and_then(|m| nth_mut(m, pick_a)).map(|s| vec_op(&mut s.merkle_proof.siblings, op)).unwrap_or(false) });
        }
        // map-key edits
        push("InitialMap.clear", &|q| {
            q.proof.opening_proof.query_round_proofs.initial_trees_proofs.clear();
            true
        });
        push("InitialMap.remove_one_key", &|q| {
            let k = q.proof.opening_proof.query_round_proofs.initial_trees_proofs.keys().next().copied();
            k.map(|k| q.proof.opening_proof.query_round_proofs.initial_trees_proofs.remove(&k).is_some()).unwrap_or(false)
        });
        push("InitialMap.rekey_to_out_of_range", &|q| {
            let m = &mut q.proof.opening_proof.query_round_proofs.initial_trees_proofs;
            let k = m.keys().next().copied();
            match k.and_then(|k| m.remove(&k)) {
                Some(v) => {
                    m.insert(lde_size + 12345, v);
                    true
                }
                None => false,
            }
        });
        push("StepMap.clear", &|q| q.proof.opening_proof.query_round_proofs.steps.first_mut().map(|m| {
            m.clear();
            true
        }).unwrap_or(false));
        push("StepMap.remove_one_key", &|q| q.proof.opening_proof.query_round_proofs.steps.first_mut().map(|m| {
            let k = m.keys().next().copied();
            k.map(|k| m.remove(&k).is_some()).unwrap_or(false)
        }).unwrap_or(false));
        push("InitialMap.surplus_key", &|q| {
            let m = &mut q.proof.opening_proof.query_round_proofs.initial_trees_proofs;
            let v = m.values().next().cloned();
            let free = (0..lde_size).find(|k| !m.contains_key(k));
            match (v, free) {
                (Some(v), Some(k)) => {
                    m.insert(k, v);
                    true
                }
                _ => false,
            }
        });
        push("StepMap.surplus_key", &|q| {
            let steps = &mut q.proof.opening_proof.query_round_proofs.steps;
            let n = steps.len().max(1);
            steps.get_mut(pick_b % n).map(|m| {
                let v = m.values().next().cloned();
                let free = (0..lde_size).find(|k| !m.contains_key(k));
                match (v, free) {
                    (Some(v), Some(k)) => {
                        m.insert(k, v);
                        true
                    }
                    _ => false,
                }
            }).unwrap_or(false)
        });
        push("Indices.out_of_range", &|q| {
            q.proof.opening_proof.query_round_proofs.indices.iter_mut().for_each(|x| *x = usize::MAX - 3);
            true
        });
    }
    for (class, q) in variants {
        // the redundant index list is never read: edits to it alone keep the proof valid
        let benign = class.starts_with("Indices.");
        observe(acc, case, &format!("verify_compressed[{hname}]"), &class, json!({}), || data.verify_compressed(q.clone()), !benign);
        observe(acc, case, &format!("decompress[{hname}]"), &class, json!({}), || data.decompress(q.clone()), false);
    }
}

fn plonk_bytes<C: GenericConfig<D, F = F>>(acc: &mut Acc, case: u64, pr: &Proven<C>, rng: &mut ChaCha8Rng, quick: bool, hname: &str) {
    let data = &pr.built.data;
    let common = &data.common;
    let bytes = pr.proof.to_bytes();
    let cbytes = catch(|| data.compress(pr.proof.clone())).ok().and_then(|r| r.ok()).map(|c| c.to_bytes()).unwrap_or_default();
    let n_mut = if quick { 120 } else { 1200 };
    for (kind, src) in [("proof", &bytes), ("compressed", &cbytes)] {
        if src.is_empty() {
            continue;
        }
        for k in 0..n_mut {
            let mut b = src.clone();
            let class = match k % 6 {
                0 => {
                    b.truncate(rng.gen_range(0..b.len()));
                    "truncated"
                }
                1 => {
                    let i = rng.gen_range(0..b.len());
                    b[i] ^= 1 << rng.gen_range(0..8);
                    "bit_flip"
                }
                2 => {
                    let i = rng.gen_range(0..b.len());
                    let l = rng.gen_range(1..9).min(b.len() - i);
                    for x in b[i..i + l].iter_mut() {
                        *x = 0xFF;
                    }
                    "ff_run"
                }
                3 => {
                    let extra: Vec<u8> = (0..rng.gen_range(1..64)).map(|_| rng.gen()).collect();
                    b.extend(extra);
                    "trailing_bytes"
                }
                4 => {
                    b = (0..rng.gen_range(0..2 * b.len().min(4096))).map(|_| rng.gen()).collect();
                    "random_string"
                }
                _ => {
                    // splice: a window of the encoding removed
                    let i = rng.gen_range(0..b.len());
                    let l = rng.gen_range(1..32).min(b.len() - i);
                    b.drain(i..i + l);
                    "window_removed"
                }
            };
            if kind == "proof" {
                let decoded = observe(acc, case, &format!("from_bytes[{hname}]"), class, json!({"len": b.len()}), || ProofWithPublicInputs::<F, C, D>::from_bytes(b.clone(), common), false);
                if let Some(p) = decoded {
                    let same = p == pr.proof;
                    let ok = observe(acc, case, &format!("verify(decoded)[{hname}]"), class, json!({}), || data.verify(p.clone()), false);
                    if ok.is_some() && !same {
                        // a different byte string may decode to the same value (non-canonical field encodings, trailing bytes)
                        acc.fails.push((format!("verify.accepted_decoded_value_that_is_not_the_original.{class}"), json!({"entry": "from_bytes+verify", "hasher": hname})));
                    }
                }
            } else {
                let decoded = observe(acc, case, &format!("compressed_from_bytes[{hname}]"), class, json!({"len": b.len()}), || CompressedProofWithPublicInputs::<F, C, D>::from_bytes(b.clone(), common), false);
                if let Some(p) = decoded {
                    let orig = catch(|| data.compress(pr.proof.clone())).ok().and_then(|r| r.ok());
                    let same_modulo_indices = orig.map(|mut o| {
                        let mut p2 = p.clone();
                        o.proof.opening_proof.query_round_proofs.indices.clear();
                        p2.proof.opening_proof.query_round_proofs.indices.clear();
                        o == p2
                    }).unwrap_or(false);
                    let ok = observe(acc, case, &format!("verify_compressed(decoded)[{hname}]"), class, json!({}), || data.verify_compressed(p.clone()), false);
                    if ok.is_some() && !same_modulo_indices {
                        acc.fails.push((format!("verify_compressed.accepted_decoded_value_that_is_not_the_original.{class}"), json!({"entry": "compressed_from_bytes+verify_compressed", "hasher": hname})));
                    }
                }
            }
        }
    }
}

fn stark_part<const COLS: usize>(acc: &mut Acc, case: u64, rng: &mut ChaCha8Rng, lookups: bool) {
    let degree = 3;
    let log_n = rng.gen_range(3..6);
    let Generated { spec, trace, pis } = if lookups { stk::gen_lookup_family(rng, COLS, 0, degree, log_n) } else { stk::gen_family(rng, COLS, 0, degree, log_n) };
    let mut config = stk::gen_stark_config(rng, degree, true);
    config.fri_config.reduction_strategy = plonky2::fri::reduction_strategies::FriReductionStrategy::ConstantArityBits(1, 1);
    let stark = GenStark::<COLS, 0>::new(spec.clone());
    let proof: StarkProofWithPublicInputs<F, PC, D> = match stark_prove(&stark, &config, &trace, &pis) {
        Ok(p) => p,
        Err(_) => return,
    };
    let entry = if lookups { "verify_stark_proof[lookups]" } else { "verify_stark_proof" };
    let mut variants: Vec<(String, StarkProofWithPublicInputs<F, PC, D>)> = vec![];
    {
        let mut push = |name: String, f: &dyn Fn(&mut StarkProofWithPublicInputs<F, PC, D>) -> bool| {
            let mut q = proof.clone();
            if f(&mut q) {
                variants.push((name, q));
            }
        };
        for op in OPS {
            push(format!("PublicInputs.{op:?}"), &|q| vec_op(&mut q.public_inputs, op) || op == ListOp::DupLast && {
                q.public_inputs.push(F(1));
                true
            });
            push(format!("TraceCap.{op:?}"), &|q| vec_op(&mut q.proof.trace_cap.0, op));
            push(format!("AuxCap.{op:?}"), &|q| q.proof.auxiliary_polys_cap.as_mut().map(|c| vec_op(&mut c.0, op)).unwrap_or(false));
            push(format!("QuotientCap.{op:?}"), &|q| q.proof.quotient_polys_cap.as_mut().map(|c| vec_op(&mut c.0, op)).unwrap_or(false));
            push(format!("Openings.local_values.{op:?}"), &|q| vec_op(&mut q.proof.openings.local_values, op));
            push(format!("Openings.next_values.{op:?}"), &|q| vec_op(&mut q.proof.openings.next_values, op));
            push(format!("Openings.auxiliary_polys.{op:?}"), &|q| q.proof.openings.auxiliary_polys.as_mut().map(|v| vec_op(v, op)).unwrap_or(false));
            push(format!("Openings.auxiliary_polys_next.{op:?}"), &|q| q.proof.openings.auxiliary_polys_next.as_mut().map(|v| vec_op(v, op)).unwrap_or(false));
            push(format!("Openings.quotient_polys.{op:?}"), &|q| q.proof.openings.quotient_polys.as_mut().map(|v| vec_op(v, op)).unwrap_or(false));
            for site in tamper::fri_list_sites::<<PC as GenericConfig<D>>::Hasher>(&proof.proof.opening_proof, 1) {
                let s = site.clone();
                push(format!("Fri.{}.{op:?}", site_name(&site)), &move |q| tamper::apply_fri_list_op::<<PC as GenericConfig<D>>::Hasher>(&mut q.proof.opening_proof, &s, op));
            }
        }
        // Option flips
        push("Option.auxiliary_polys_cap=None".into(), &|q| q.proof.auxiliary_polys_cap.take().is_some());
        push("Option.quotient_polys_cap=None".into(), &|q| q.proof.quotient_polys_cap.take().is_some());
        push("Option.openings.auxiliary_polys=None".into(), &|q| q.proof.openings.auxiliary_polys.take().is_some());
        push("Option.openings.auxiliary_polys_next=None".into(), &|q| q.proof.openings.auxiliary_polys_next.take().is_some());
        push("Option.openings.quotient_polys=None".into(), &|q| q.proof.openings.quotient_polys.take().is_some());
        push("Option.quotient_cap_and_openings=None".into(), &|q| q.proof.openings.quotient_polys.take().is_some() | q.proof.quotient_polys_cap.take().is_some());
        push("Option.openings.ctl_zs_first=Some".into(), &|q| {
            q.proof.openings.ctl_zs_first = Some(vec![F(1), F(2)]);
            true
        });
        push("Option.auxiliary_polys_cap=Some(surplus)".into(), &|q| {
            if q.proof.auxiliary_polys_cap.is_none() {
                q.proof.auxiliary_polys_cap = Some(q.proof.trace_cap.clone());
                true
            } else {
                false
            }
        });
        push("Option.openings.auxiliary_polys=Some(surplus)".into(), &|q| {
            if q.proof.openings.auxiliary_polys.is_none() {
                q.proof.openings.auxiliary_polys = Some(q.proof.openings.local_values.clone());
                q.proof.openings.auxiliary_polys_next = Some(q.proof.openings.local_values.clone());
                true
            } else {
                false
            }
        });
    }
    // proofs that lack a component from the start, so that their transcript is coherent: produced by
    // provers that never send it (honest trace; the proofs are malformed all the same)
    if !lookups {
        use starky::verif_hooks::{set_knobs, StarkProverKnobs};
        for (name, knobs) in [
            ("Coherent.no_quotient_cap", StarkProverKnobs { forge_quotient_after_zeta: true, ..Default::default() }),
            ("Coherent.no_quotient_openings", StarkProverKnobs { zero_quotient_without_openings: true, ..Default::default() }),
        ] {
            Run::note_current(case, "idle", &json!({"phase": "hostile prover"}));
            set_knobs(knobs);
            let forged = catch(|| stark_prove(&stark, &config, &trace, &pis));
            set_knobs(StarkProverKnobs::default());
            if let Ok(Ok(q)) = forged {
                variants.push((name.to_string(), q));
            }
        }
    }
    // honest challenges for the with_challenges entry point
    let honest_ch = catch(|| {
        let mut ch = Challenger::<F, <PC as GenericConfig<D>>::Hasher>::new();
        proof.get_challenges(&stark, &mut ch, None, None, false, &config, None)
    })
    .ok();
    for (class, q) in variants {
        observe(acc, case, entry, &class, json!({}), || verify_stark_proof::<F, PC, GenStark<COLS, 0>, D>(stark.clone(), q.clone(), &config, None), true);
        if class.starts_with("Coherent.") {
            continue;
        }
        if let Some(ch) = &honest_ch {
            observe(acc, case, &format!("{entry}.with_challenges"), &class, json!({}), || verify_stark_proof_with_challenges::<F, PC, GenStark<COLS, 0>, D>(&stark, &q.proof, ch, None, &q.public_inputs, &config), true);
        }
    }
    // serde decoder on mutated JSON
    if let Ok(js) = serde_json::to_string(&proof) {
        for k in 0..40 {
            let mut b = js.clone().into_bytes();
            let i = rng.gen_range(0..b.len());
            match k % 3 {
                0 => b.truncate(i),
                1 => b[i] = b"[]{},0123456789\"n"[rng.gen_range(0..17)],
                _ => {
                    b.drain(i..(i + rng.gen_range(1..12)).min(b.len()));
                }
            }
            let s = String::from_utf8_lossy(&b).to_string();
            let dec = observe(acc, case, "stark_proof.serde_decode", ["truncated", "byte_replaced", "window_removed"][k % 3], json!({}), || serde_json::from_str::<StarkProofWithPublicInputs<F, PC, D>>(&s).map_err(anyhow::Error::msg), false);
            if let Some(p) = dec {
                let same = serde_json::to_string(&p).ok() == Some(js.clone());
                let ok = observe(acc, case, &format!("{entry}(decoded)"), "decoded_json", json!({}), || verify_stark_proof::<F, PC, GenStark<COLS, 0>, D>(stark.clone(), p.clone(), &config, None), false);
                if ok.is_some() && !same {
                    acc.fails.push(("verify_stark_proof.accepted_decoded_value_that_is_not_the_original".into(), json!({})));
                }
            }
        }
    }
}

fn case(seed: u64, c: u64, quick: bool) -> Acc {
    let mut acc = Acc::default();
    let mut rng = crate::mon::case_rng(seed, 18_001, c);
    // building and proving the subject is the harness's own work: a death there is not a verdict
    Run::note_current(c, "idle", &json!({"phase": "building the subject"}));
    match c % 4 {
        0 | 1 => {
            if let Ok(pr) = pool_member::<PC>(seed, 18_002, c, c as u32) {
                plonk_structural(&mut acc, c, &pr, &mut rng, "poseidon");
                plonk_bytes(&mut acc, c, &pr, &mut rng, quick, "poseidon");
                acc.sample = Some(json!({"subject": "plonk proof", "config": crate::circ::describe_config(&pr.config), "lookups": !pr.prog.tables.is_empty(), "proof_bytes": pr.proof.to_bytes().len()}));
            }
        }
        2 => {
            if let Ok(pr) = pool_member::<KeccakGoldilocksConfig>(seed, 18_003, c, c as u32) {
                plonk_structural(&mut acc, c, &pr, &mut rng, "keccak");
                plonk_bytes(&mut acc, c, &pr, &mut rng, quick, "keccak");
            }
        }
        _ => {
            stark_part::<4>(&mut acc, c, &mut rng, false);
            Run::note_current(c, "idle", &json!({"phase": "building the subject"}));
            stark_part::<6>(&mut acc, c, &mut rng, true);
            acc.sample = Some(json!({"subject": "stark proofs (with and without lookups)"}));
        }
    }
    Run::note_current(c, "idle", &json!({"phase": "case finished"}));
    acc
}

fn limit_address_space(bytes: u64) {
    unsafe {
        let lim = libc::rlimit { rlim_cur: bytes, rlim_max: bytes };
        libc::setrlimit(libc::RLIMIT_AS, &lim);
    }
}

pub fn run(tier: Tier) -> ! {
    let mut run = Run::new("C18", "fault_enumeration", tier);
    run.rule("entry points verify / verify_compressed / decompress / ProofWithPublicInputs::from_bytes / CompressedProofWithPublicInputs::from_bytes (Poseidon and Keccak circuits incl. lookups and zk), verify_stark_proof / verify_stark_proof_with_challenges / serde decoding (STARKs with and without lookups). Inputs: every list x {drop last, empty, duplicate last, halve, three entries}; compressed-proof map edits (clear, remove key, surplus key, out-of-range key, out-of-range indices) on drawn entries; STARK Option flips; byte strings (truncated, bit flipped, 0xFF runs, trailing bytes, random, window removed). Workers run under a 6 GiB address-space limit and a supervisor that attributes a dying worker to the input it was processing. Violation = panic (signature: entry point + input site; panic site and message are recorded in the replay file), worker death, acceptance of a malformed value, or acceptance of a decoded value that differs from the original proof. distinct = (entry point, input class).");
    run.assume("a value that decodes successfully and equals the original proof (trailing bytes, redundant compressed indices) may be accepted");
    let quick = run.quick();
    let seed = run.seed;
    let n_cases: u64 = run.pick(16, 480);
    let mut outcomes: BTreeMap<String, u64> = BTreeMap::new();
    if Run::shard_spec().is_none() {
        let dir = crate::mon::verif_dir().join("scratch").join(format!("c18-{}", std::process::id()));
        run.run_shards_supervised(16, 1, 3 * 3600, Some(dir.clone()));
        let _ = std::fs::remove_dir_all(&dir);
        if !Run::is_sub() {
            run.run_variants();
        }
        run.count("cases", n_cases);
    } else {
        limit_address_space(6 << 30);
        let skip = Run::skip_below();
        for c in 0..n_cases {
            if !Run::in_shard(c) || run.skip_case(c) || c < skip {
                continue;
            }
            let a = case(seed, c, quick);
            run.evals(a.evals);
            for (k, v) in a.outcomes {
                *outcomes.entry(k).or_insert(0) += v;
            }
            for k in a.keys {
                run.nontrivial(k);
            }
            if let Some(s) = a.sample {
                run.sample(s);
            }
            for (sig, d) in a.fails {
                run.violation(&sig.replace(|ch: char| ch.is_ascii_digit(), "#"), c, d);
            }
        }
        run.set_extra("outcomes_by_entry_point", json!(outcomes));
    }
    run.finish()
}
