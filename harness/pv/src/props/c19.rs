//! C19 — circuit keys and verdicts do not depend on schedule, hash seeds or SIMD build.
//!
//! One deterministic script is executed by the monitor binary of every build variant (checked
//! release, plain release, AVX2, AVX-512, alternate compile-time hash seeds) under several rayon
//! pool sizes, each in its own process, each writing a digest log of its deterministic artefacts and
//! the proofs it produced. The coordinator diffs all logs and makes every variant verify the proofs
//! of every other.

use std::collections::{BTreeMap, BTreeSet};
use std::path::{Path, PathBuf};

use plonky2::field::extension::{Extendable, FieldExtension};
use plonky2::field::goldilocks_field::GoldilocksField as F;
use plonky2::field::polynomial::{PolynomialCoeffs, PolynomialValues};
use plonky2::field::types::{Field, PrimeField64};
use plonky2::fri::oracle::PolynomialBatch;
use plonky2::hash::merkle_tree::MerkleTree;
use plonky2::plonk::circuit_data::CircuitConfig;
use plonky2::plonk::config::{GenericConfig, KeccakGoldilocksConfig, PoseidonGoldilocksConfig};
use plonky2::plonk::proof::ProofWithPublicInputs;
use plonky2::util::serialization::DefaultGateSerializer;
use plonky2::util::timing::TimingTree;
use rand::Rng;
use serde_json::{json, Value};

use crate::circ::{self, GenOpts, D};
use crate::gen;
use crate::mon::{catch, msg_class, Run, Tier};
use crate::props::c09::{stark_prove, stark_verify};
use crate::refmodel::keccak256;
use crate::stk::{self, GenStark, Generated};

type PC = PoseidonGoldilocksConfig;
type KC = KeccakGoldilocksConfig;

fn hex(b: &[u8]) -> String {
    b.iter().map(|x| format!("{x:02x}")).collect()
}
fn unhex(s: &str) -> Vec<u8> {
    (0..s.len() / 2).map(|i| u8::from_str_radix(&s[2 * i..2 * i + 2], 16).unwrap_or(0)).collect()
}
fn dig(b: &[u8]) -> String {
    hex(&keccak256(b)[..12])
}
fn dig_f(v: &[F]) -> String {
    let mut b = vec![];
    for x in v {
        b.extend_from_slice(&x.to_canonical_u64().to_le_bytes());
    }
    dig(&b)
}

/// Indices >= ZOO_BASE: tiny circuits (4..16 rows) under FRI reduction strategies that the defaults never
/// use (arity larger than the final-polynomial bound, arity above the degree, one-layer Fixed lists) —
/// the corner where release and checked arithmetic, or two builds, could disagree about the parameters.
const ZOO_BASE: u64 = 1000;
const ZOO: u64 = 10;

fn script_indices(quick: bool) -> Vec<u64> {
    let n_circ: u64 = if quick { 6 } else { 24 };
    (0..n_circ).chain(ZOO_BASE..ZOO_BASE + ZOO).collect()
}

fn script_program(seed: u64, i: u64) -> (circ::Program, Vec<u64>, CircuitConfig) {
    let mut rng = crate::mon::case_rng(seed, 19_001, i);
    let bset = gen::boundary_set();
    if i >= ZOO_BASE {
        use plonky2::fri::reduction_strategies::FriReductionStrategy as S;
        let opts = GenOpts { n_ops: rng.gen_range(1..5), lookups: false, hashing: false, extension: false, max_table_len: 4, only_base2: true };
        let (p, inp) = circ::gen_program(&mut rng, &bset, &opts);
        let mut cfg = circ::fast_config();
        cfg.fri_config.reduction_strategy = match (i - ZOO_BASE) % ZOO {
            0 => S::ConstantArityBits(4, 1),
            1 => S::ConstantArityBits(3, 0),
            2 => S::ConstantArityBits(2, 1),
            3 => S::ConstantArityBits(1, 0),
            4 => S::ConstantArityBits(4, 2),
            5 => S::ConstantArityBits(5, 1),
            6 => S::Fixed(vec![1]),
            7 => S::Fixed(vec![2]),
            8 => S::MinSize(None),
            _ => S::MinSize(Some(2)),
        };
        cfg.fri_config.cap_height = ((i - ZOO_BASE) % 3) as usize;
        cfg.zero_knowledge = false;
        return (p, inp, cfg);
    }
    let opts = GenOpts { n_ops: rng.gen_range(20..if i % 3 == 0 { 400 } else { 120 }), lookups: i % 2 == 0, hashing: true, extension: true, max_table_len: 70, only_base2: true };
    let (p, inp) = circ::gen_program(&mut rng, &bset, &opts);
    let mut cfg = if i % 3 == 1 { circ::gen_config(&mut rng, true) } else { circ::fast_config() };
    cfg.zero_knowledge = false; // blinding is the one legitimate source of randomness besides grinding
    (p, inp, cfg)
}

fn emit_circuit<C: GenericConfig<D, F = F>>(name: &str, prog: circ::Program, inputs: Vec<u64>, cfg: CircuitConfig, log: &mut BTreeMap<String, String>, proofs: &mut BTreeMap<String, String>, pow: &mut Vec<u64>) {
    let built = match catch(|| circ::build::<C>(&prog, &cfg)) {
        Ok(b) => b,
        Err(p) => {
            log.insert(format!("{name}.build"), format!("refused: {}", msg_class(&p.msg).chars().take(50).collect::<String>()));
            return;
        }
    };
    let gs = DefaultGateSerializer;
    log.insert(format!("{name}.verifier_only"), dig(&built.data.verifier_only.to_bytes().unwrap_or_default()));
    log.insert(format!("{name}.common"), dig(&built.data.common.to_bytes(&gs).unwrap_or_default()));
    log.insert(format!("{name}.sigmas"), dig_f(&built.data.prover_only.sigmas.iter().flatten().copied().collect::<Vec<_>>()));
    log.insert(format!("{name}.representative_map"), dig(&built.data.prover_only.representative_map.iter().flat_map(|x| (*x as u64).to_le_bytes()).collect::<Vec<_>>()));
    log.insert(format!("{name}.generator_order"), dig(built.data.prover_only.generators.iter().map(|g| g.0.id()).collect::<Vec<_>>().join(",").as_bytes()));
    if let Ok(Ok(w)) = catch(|| plonky2::iop::generator::generate_partial_witness(circ::witness_for(&built, &inputs), &built.data.prover_only, &built.data.common)) {
        use plonky2::iop::witness::Witness;
        log.insert(format!("{name}.witness_registers"), dig_f(&built.reg_targets.iter().map(|t| w.try_get_target(*t).unwrap_or(F::ZERO)).collect::<Vec<_>>()));
    }
    match catch(|| built.data.prove(circ::witness_for(&built, &inputs))) {
        Ok(Ok(p)) => {
            // PLONK proofs are NOT deterministic even without zero knowledge (the builder randomises the
            // unused wires of the public-input row on purpose), so only their public inputs are logged
            log.insert(format!("{name}.public_inputs"), dig_f(&p.public_inputs));
            pow.push(p.proof.opening_proof.pow_witness.to_canonical_u64());
            proofs.insert(name.to_string(), hex(&p.to_bytes()));
        }
        other => {
            log.insert(format!("{name}.prove"), format!("failed: {:?}", other.map(|r| r.map(|_| ()).map_err(|e| e.to_string())).map_err(|p| p.msg)));
        }
    }
}

fn stark_case(seed: u64, i: u64) -> (Generated, starky::config::StarkConfig) {
    let mut rng = crate::mon::case_rng(seed, 19_002, i);
    let g = if i % 2 == 0 { stk::gen_family(&mut rng, 6, 0, 3, 6 + (i as usize % 3)) } else { stk::gen_lookup_family(&mut rng, 6, 0, 3, 5 + (i as usize % 3)) };
    let mut cfg = stk::gen_stark_config(&mut rng, 3, true);
    cfg.fri_config.proof_of_work_bits = 6;
    (g, cfg)
}

/// The deterministic script. Writes `<dir>/digest.json` and `<dir>/proofs.json`.
pub fn emit(dir: &Path, seed: u64, quick: bool) {
    let mut log: BTreeMap<String, String> = BTreeMap::new();
    let mut proofs: BTreeMap<String, String> = BTreeMap::new();
    let mut pow: Vec<u64> = vec![];
    for i in script_indices(quick) {
        let (p, inp, cfg) = script_program(seed, i);
        if i % 4 == 3 {
            emit_circuit::<KC>(&format!("circuit{i}.keccak"), p, inp, cfg, &mut log, &mut proofs, &mut pow);
        } else {
            emit_circuit::<PC>(&format!("circuit{i}.poseidon"), p, inp, cfg, &mut log, &mut proofs, &mut pow);
        }
    }
    // transforms and commitments on fixed data
    let mut rng = crate::mon::case_rng(seed, 19_003, 0);
    for log_n in [3usize, 8, 12, if quick { 13 } else { 16 }] {
        let coeffs: Vec<F> = (0..1usize << log_n).map(|_| gen::f_uniform(&mut rng)).collect();
        let pc = PolynomialCoeffs::new(coeffs.clone());
        log.insert(format!("fft.2^{log_n}"), dig_f(&pc.clone().fft().values));
        log.insert(format!("coset_fft.2^{log_n}"), dig_f(&pc.clone().coset_fft(F::coset_shift()).values));
        log.insert(format!("lde.2^{log_n}.rate3"), dig_f(&pc.lde(3).fft().values));
        log.insert(format!("ifft.2^{log_n}"), dig_f(&PolynomialValues::new(coeffs.clone()).ifft().coeffs));
        let leaves: Vec<Vec<F>> = coeffs.chunks(1 << (log_n.min(4) / 2)).map(|c| c.to_vec()).collect();
        let cap_h = 2.min(leaves.len().trailing_zeros() as usize);
        log.insert(format!("merkle_cap.poseidon.{}leaves", leaves.len()), dig(format!("{:?}", MerkleTree::<F, <PC as GenericConfig<D>>::Hasher>::new(leaves.clone(), cap_h).cap).as_bytes()));
        log.insert(format!("merkle_cap.keccak.{}leaves", leaves.len()), dig(format!("{:?}", MerkleTree::<F, <KC as GenericConfig<D>>::Hasher>::new(leaves, cap_h).cap).as_bytes()));
        if log_n <= 12 {
            let vals: Vec<PolynomialValues<F>> = (0..5).map(|_| PolynomialValues::new((0..1usize << log_n).map(|_| gen::f_uniform(&mut rng)).collect())).collect();
            let b = PolynomialBatch::<F, PC, D>::from_values(vals, 2, false, 1.min(log_n), &mut TimingTree::default(), None);
            log.insert(format!("polynomial_batch_cap.2^{log_n}"), dig(format!("{:?}", b.merkle_tree.cap).as_bytes()));
        }
        // extension-field arithmetic in bulk (packed paths differ per build)
        let e: Vec<<F as Extendable<D>>::Extension> = coeffs.chunks(2).map(|c| <F as Extendable<D>>::Extension::from_basefield_array([c[0], c[c.len() - 1]])).collect();
        let prod = e.iter().fold(<F as Extendable<D>>::Extension::ONE, |a, b| a * *b + *b);
        log.insert(format!("extension_fold.2^{log_n}"), format!("{prod:?}"));
    }
    // STARK transcripts up to grinding
    for i in 0..if quick { 4u64 } else { 12 } {
        let (g, cfg) = stark_case(seed, i);
        let stark = GenStark::<6, 0>::new(g.spec.clone());
        match stark_prove(&stark, &cfg, &g.trace, &g.pis) {
            Ok(p) => {
                let mut b = vec![];
                b.extend_from_slice(format!("{:?}{:?}{:?}{:?}", p.proof.trace_cap, p.proof.auxiliary_polys_cap, p.proof.quotient_polys_cap, p.proof.openings).as_bytes());
                b.extend_from_slice(format!("{:?}{:?}", p.proof.opening_proof.commit_phase_merkle_caps, p.proof.opening_proof.final_poly).as_bytes());
                log.insert(format!("stark{i}.transcript_before_grinding"), dig(&b));
                pow.push(p.proof.opening_proof.pow_witness.to_canonical_u64());
                proofs.insert(format!("stark{i}"), serde_json::to_string(&p).unwrap_or_default());
            }
            Err(e) => {
                log.insert(format!("stark{i}.prove"), format!("refused: {}", msg_class(&e).chars().take(50).collect::<String>()));
            }
        }
    }
    let _ = std::fs::create_dir_all(dir);
    std::fs::write(dir.join("digest.json"), serde_json::to_string_pretty(&json!({"log": log, "pow_witnesses": pow, "packing": std::any::type_name::<<F as plonky2::field::packable::Packable>::Packing>(), "threads": rayon::current_num_threads()})).unwrap()).expect("write digest");
    std::fs::write(dir.join("proofs.json"), serde_json::to_string(&proofs).unwrap()).expect("write proofs");
}

/// Verifies every proof found in the given directories with circuits rebuilt in THIS process.
pub fn verify_dirs(dirs: &[PathBuf], seed: u64, quick: bool) -> Value {
    let mut results: BTreeMap<String, String> = BTreeMap::new();
    let mut n_ok = 0u64;
    let load: Vec<(String, BTreeMap<String, String>)> = dirs.iter().filter_map(|d| std::fs::read_to_string(d.join("proofs.json")).ok().and_then(|s| serde_json::from_str(&s).ok()).map(|m| (d.file_name().unwrap().to_string_lossy().to_string(), m))).collect();
    for i in script_indices(quick) {
        let (p, _inp, cfg) = script_program(seed, i);
        macro_rules! go {
            ($C:ty, $name:expr) => {{
                if let Ok(built) = catch(|| circ::build::<$C>(&p, &cfg)) {
                    for (src, m) in load.iter() {
                        if let Some(h) = m.get(&$name) {
                            let r = catch(|| ProofWithPublicInputs::<F, $C, D>::from_bytes(unhex(h), &built.data.common).and_then(|pr| built.data.verify(pr)));
                            if matches!(r, Ok(Ok(()))) {
                                n_ok += 1;
                            } else {
                                results.insert(format!("{}<-{src}", $name), format!("{:?}", r.map(|x| x.map_err(|e| e.to_string())).map_err(|p| p.msg)));
                            }
                        }
                    }
                }
            }};
        }
        if i % 4 == 3 {
            go!(KC, format!("circuit{i}.keccak"));
        } else {
            go!(PC, format!("circuit{i}.poseidon"));
        }
    }
    for i in 0..if quick { 4u64 } else { 12 } {
        let (g, cfg) = stark_case(seed, i);
        let stark = GenStark::<6, 0>::new(g.spec.clone());
        for (src, m) in load.iter() {
            if let Some(js) = m.get(&format!("stark{i}")) {
                match serde_json::from_str::<starky::proof::StarkProofWithPublicInputs<F, PC, D>>(js) {
                    Ok(pr) => match stark_verify(&stark, &cfg, pr) {
                        Ok(()) => n_ok += 1,
                        Err(e) => {
                            results.insert(format!("stark{i}<-{src}"), e);
                        }
                    },
                    Err(e) => {
                        results.insert(format!("stark{i}<-{src}"), e.to_string());
                    }
                }
            }
        }
    }
    json!({"accepted": n_ok, "rejected": results})
}

pub fn run(tier: Tier) -> ! {
    // worker modes
    if let Ok(dir) = std::env::var("PV_C19_EMIT") {
        emit(Path::new(&dir), crate::mon::env_seed(), tier == Tier::Quick);
        std::process::exit(0);
    }
    if let Ok(dirs) = std::env::var("PV_C19_VERIFY") {
        let v = verify_dirs(&dirs.split(':').map(PathBuf::from).collect::<Vec<_>>(), crate::mon::env_seed(), tier == Tier::Quick);
        println!("C19VERIFY {}", serde_json::to_string(&v).unwrap());
        std::process::exit(0);
    }
    let mut run = Run::new("C19", "exploration", tier);
    run.rule("one deterministic script (generated circuits incl. lookups and Keccak: bytes of verifier-only and common data, sigma table, copy-class map, generator order, witness values of all program registers, proof public inputs; FFT / coset FFT / LDE / IFFT outputs, Poseidon and Keccak Merkle caps, PolynomialBatch caps, bulk extension arithmetic; STARK transcripts up to grinding) run in separate processes by every build variant {checked release, plain release, AVX2, AVX-512, alternate compile-time hash seeds} x rayon pool sizes; all digest logs must be identical; afterwards every variant verifies the proofs produced by every (variant, pool size). PLONK proofs themselves are not compared (unused public-input-row wires are randomised by design); for STARK proofs the proof-of-work witness and what follows it are the only legitimate differences.");
    run.assume("zero knowledge is off in the script: blinding is legitimate randomness");
    let quick = run.quick();
    let tier_s = if quick { "quick" } else { "thorough" };
    let base = crate::mon::verif_dir().join("scratch").join(format!("c19-{}", std::process::id()));
    let _ = std::fs::create_dir_all(&base);
    let mut variants: Vec<(String, PathBuf)> = vec![("chk".into(), std::env::current_exe().expect("exe"))];
    for item in std::env::var("PV_VARIANTS").unwrap_or_default().split(',').filter(|s| !s.is_empty()) {
        if let Some((n, p)) = item.split_once('=') {
            variants.push((n.to_string(), PathBuf::from(p)));
        }
    }
    let threads: Vec<usize> = if quick { vec![1, 3, 16] } else { vec![1, 2, 3, 7, 16] };
    let mut dirs: Vec<(String, PathBuf)> = vec![];
    for (vn, exe) in variants.iter() {
        for t in threads.iter() {
            let name = format!("{vn}-t{t}");
            let d = base.join(&name);
            let st = std::process::Command::new(exe).args(["C19", tier_s]).env("PV_C19_EMIT", &d).env("RAYON_NUM_THREADS", t.to_string()).env("PV_VARIANTS", "").stdout(std::process::Stdio::null()).stderr(std::process::Stdio::null()).status();
            match st {
                Ok(s) if s.success() && d.join("digest.json").exists() => dirs.push((name, d)),
                other => run.inconclusive(&format!("emitter {name} did not finish: {other:?}")),
            }
        }
    }
    // diff
    let mut reference: Option<(String, BTreeMap<String, String>)> = None;
    let mut pow_sets: BTreeSet<Vec<u64>> = BTreeSet::new();
    let mut packings: BTreeSet<String> = BTreeSet::new();
    for (name, d) in dirs.iter() {
        let v: Value = match std::fs::read_to_string(d.join("digest.json")).ok().and_then(|s| serde_json::from_str(&s).ok()) {
            Some(v) => v,
            None => {
                run.inconclusive(&format!("digest log of {name} unreadable"));
                continue;
            }
        };
        let log: BTreeMap<String, String> = serde_json::from_value(v["log"].clone()).unwrap_or_default();
        pow_sets.insert(v["pow_witnesses"].as_array().map(|a| a.iter().map(|x| x.as_u64().unwrap_or(0)).collect()).unwrap_or_default());
        packings.insert(v["packing"].as_str().unwrap_or("").to_string());
        match &reference {
            None => {
                run.count("artefacts_per_log", log.len() as u64);
                run.sample(json!({"reference_log": name, "artefacts": log.keys().take(12).collect::<Vec<_>>()}));
                reference = Some((name.clone(), log));
            }
            Some((rname, rlog)) => {
                run.count("logs_compared_with_reference", 1);
                for (k, want) in rlog.iter() {
                    run.eval();
                    let got = log.get(k);
                    if got != Some(want) {
                        let class: String = k.split('.').skip(1).collect::<Vec<_>>().join(".");
                        run.violation(&format!("artefact_differs_across_runs.{}", if class.is_empty() { k.clone() } else { class }.replace(|c: char| c.is_ascii_digit(), "#")), 0, json!({"artefact": k, "reference": rname, "reference_value": want, "other": name, "other_value": got}));
                    }
                }
                for k in log.keys() {
                    if !rlog.contains_key(k) {
                        run.violation("artefact_only_in_some_runs", 0, json!({"artefact": k, "run": name}));
                    }
                }
                run.nontrivial(name.clone());
            }
        }
    }
    run.nontrivial("reference");
    run.set_extra("distinct_pow_witness_vectors_seen", json!(pow_sets.len()));
    run.set_extra("packings_seen", json!(packings));
    run.set_extra("runs", json!(dirs.iter().map(|(n, _)| n.clone()).collect::<Vec<_>>()));
    // proof exchange: every variant verifies the proofs of every run
    let all: String = dirs.iter().map(|(_, d)| d.to_string_lossy().to_string()).collect::<Vec<_>>().join(":");
    for (vn, exe) in variants.iter() {
        let out = std::process::Command::new(exe).args(["C19", tier_s]).env("PV_C19_VERIFY", &all).env("PV_VARIANTS", "").output();
        let line = out.ok().and_then(|o| String::from_utf8_lossy(&o.stdout).lines().find_map(|l| l.strip_prefix("C19VERIFY ").map(|s| s.to_string())));
        match line.and_then(|l| serde_json::from_str::<Value>(&l).ok()) {
            Some(v) => {
                let acc = v["accepted"].as_u64().unwrap_or(0);
                run.evals(acc);
                run.count(&format!("proofs_accepted_by.{vn}"), acc);
                if let Some(m) = v["rejected"].as_object() {
                    for (k, why) in m {
                        run.evals(1);
                        let src = k.split("<-").nth(1).unwrap_or("").split("-t").next().unwrap_or("").to_string();
                        run.violation(&format!("proof_of_{src}_build_rejected_by_{vn}_build"), 0, json!({"proof": k, "verifier_build": vn, "why": why}));
                    }
                }
                if acc == 0 {
                    run.inconclusive(&format!("verifier {vn} accepted no proof"));
                }
            }
            None => run.inconclusive(&format!("verifier {vn} produced no result")),
        }
    }
    let _ = std::fs::remove_dir_all(&base);
    run.finish()
}
