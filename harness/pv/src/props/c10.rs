//! C10 — STARK lookups and cross-table lookups hold iff the looked-up values are present.
//!
//! Part 1 (column lookups inside one STARK): generated definitions with 1-2 lookups (plain,
//! linear-combination, next-row and filtered looking columns; range / repeating / boundary tables).
//! Part 2 (cross-table lookups): multi-table driver built from the public pieces.
//! Oracle in both parts: direct multiset comparison on the traces.

use std::collections::BTreeMap;

use plonky2::field::goldilocks_field::GoldilocksField as F;
use rand::Rng;
use serde_json::{json, Value};
use starky::verif_hooks::{set_knobs, StarkProverKnobs};

use crate::mon::{msg_class, Run, Tier};
use crate::props::c09::{is_stark_refusal, stark_prove, stark_verify, Acc, Out};
use crate::stk::{self, GenStark, Generated, P};
use crate::tamper;

type C = plonky2::plonk::config::PoseidonGoldilocksConfig;

fn judge(acc: &mut Acc, class: &str, violating: bool, out: &Out, ctx: &Value, detail: Value) {
    acc.evals += 1;
    acc.m(class, &out.label());
    let accepted = matches!(out, Out::Accepted);
    if violating && accepted {
        acc.fails.push((format!("stark_lookup.accepted_although_values_not_present.{class}"), json!({"ctx": ctx, "detail": detail})));
    }
    if !violating && !accepted {
        acc.fails.push((format!("stark_lookup.rejected_although_values_present.{class}: {}", out.label()), json!({"ctx": ctx, "detail": detail})));
    }
}

fn attempt<const COLS: usize>(stark: &GenStark<COLS, 0>, config: &starky::config::StarkConfig, trace: &[Vec<u64>]) -> Out {
    match stark_prove(stark, config, trace, &[]) {
        Err(e) => Out::Refused(e),
        Ok(p) => match stark_verify(stark, config, p) {
            Ok(()) => Out::Accepted,
            Err(e) => Out::Rejected(e),
        },
    }
}

fn violating(spec: &stk::Spec, trace: &[Vec<u64>]) -> (bool, String) {
    let l = spec.check_lookups(trace);
    let c = spec.check_trace(trace, &[]);
    (!l.is_empty() || !c.is_empty(), if !l.is_empty() { "multiset".into() } else if !c.is_empty() { "row_constraint".into() } else { "none".into() })
}

pub fn case_lookup<const COLS: usize>(seed: u64, case: u64, quick: bool) -> Acc {
    let mut acc = Acc::default();
    let mut rng = crate::mon::case_rng(seed, 10_001, case);
    let degree = if rng.gen_bool(0.5) { 2 } else { 3 };
    let log_n = rng.gen_range(2..=if quick { 6 } else { 9 });
    let Generated { spec, trace, .. } = stk::gen_lookup_family(&mut rng, COLS, 0, degree, log_n);
    let config = stk::gen_stark_config(&mut rng, degree, true);
    let stark = GenStark::<COLS, 0>::new(spec.clone());
    let n = trace[0].len();
    let ctx = json!({"case": case, "stark": spec.describe(), "log_n": log_n, "config": stk::describe_stark_config(&config), "lookups": spec.lookups.iter().map(|l| json!({"looking_columns": l.looking.len(), "filtered": l.filters.iter().filter(|f| f.is_some()).count(), "next_row": l.looking.iter().filter(|c| !c.next.is_empty()).count(), "linear_combinations": l.looking.iter().filter(|c| c.local.len() > 1).count()})).collect::<Vec<_>>()});
    acc.keys.push(format!("{}|n{}|{}", spec.name, log_n, stk::describe_stark_config(&config)));
    let (v, why) = violating(&spec, &trace);
    if v {
        acc.inconclusive.push(format!("harness: generated lookup trace violates its own spec ({why})"));
        return acc;
    }
    set_knobs(StarkProverKnobs::default());
    let proof = match stark_prove(&stark, &config, &trace, &[]) {
        Ok(p) => p,
        Err(e) => {
            if is_stark_refusal(&e) {
                acc.c(&format!("config_refused: {}", msg_class(&e).chars().take(60).collect::<String>()));
            } else {
                acc.evals += 1;
                acc.fails.push((format!("stark_lookup.prover_failed_although_values_present: {}", msg_class(&e).chars().take(80).collect::<String>()), json!({"ctx": ctx, "err": e})));
            }
            return acc;
        }
    };
    acc.evals += 1;
    acc.c("lookup_positive_traces");
    for l in spec.lookups.iter() {
        for (k, c) in l.looking.iter().enumerate() {
            if l.filters[k].is_some() {
                acc.c("looking_columns.filtered");
            } else if !c.next.is_empty() {
                acc.c("looking_columns.next_row");
            } else if c.local.len() > 1 {
                acc.c("looking_columns.linear_combination");
            } else {
                acc.c("looking_columns.plain");
            }
        }
    }
    if let Err(e) = stark_verify(&stark, &config, proof.clone()) {
        acc.fails.push((format!("stark_lookup.rejected_honest_proof: {}", msg_class(&e).chars().take(80).collect::<String>()), json!({"ctx": ctx, "err": e})));
        return acc;
    }
    // ---- negatives ---------------------------------------------------------------------------
    let knobs = StarkProverKnobs { skip_constraint_check: true, lenient_truncation: true, ..Default::default() };
    set_knobs(knobs.clone());
    let reps = if quick { 1 } else { 2 };
    for _ in 0..reps {
        for (li, l) in spec.lookups.iter().enumerate() {
            // 1. a looking cell gets a value (most likely) outside the table
            let k = rng.gen_range(0..l.looking.len());
            let col = l.looking[k].local.first().or(l.looking[k].next.first()).map(|x| x.0).unwrap();
            let row = rng.gen_range(0..n);
            let mut t2 = trace.clone();
            t2[col][row] = rng.gen_range(0..P);
            let (v, _) = violating(&spec, &t2);
            judge(&mut acc, if v { "looking_value_altered" } else { "looking_value_altered:benign(filtered out or still in table)" }, v, &attempt(&stark, &config, &t2), &ctx, json!({"lookup": li, "column": col, "row": row}));
            // 2. a frequency off by one
            let mut t2 = trace.clone();
            let row = rng.gen_range(0..n);
            t2[l.freq][row] = if rng.gen_bool(0.5) { (t2[l.freq][row] + 1) % P } else { (t2[l.freq][row] + P - 1) % P };
            let (v, _) = violating(&spec, &t2);
            judge(&mut acc, if v { "frequency_off_by_one" } else { "frequency_changed:benign" }, v, &attempt(&stark, &config, &t2), &ctx, json!({"lookup": li, "row": row}));
            // 3. a table cell altered
            let mut t2 = trace.clone();
            let row = rng.gen_range(0..n);
            t2[l.table][row] = rng.gen_range(0..P);
            let (v, _) = violating(&spec, &t2);
            judge(&mut acc, if v { "table_value_altered(used entry)" } else { "table_value_altered:benign(entry with frequency 0)" }, v, &attempt(&stark, &config, &t2), &ctx, json!({"lookup": li, "row": row}));
            // 4. a value moved from one looking row to the table's complement: swap two looking cells of different columns
            if l.looking.len() >= 2 {
                let mut t2 = trace.clone();
                let (a, b) = (rng.gen_range(0..n), rng.gen_range(0..n));
                let c1 = l.looking[0].local.first().or(l.looking[0].next.first()).map(|x| x.0).unwrap();
                t2[c1][a] = (t2[c1][b] + 1) % P;
                let (v, _) = violating(&spec, &t2);
                judge(&mut acc, if v { "looking_value_plus_one" } else { "looking_value_plus_one:benign" }, v, &attempt(&stark, &config, &t2), &ctx, json!({"lookup": li}));
            }
        }
        // 4b. a looking value leaves the table while the prover keeps the helper columns of the
        //     original trace (only the helper-column constraints stand in the way)
        for (li, l) in spec.lookups.iter().enumerate() {
            // the last looking column sits in the last (possibly partial) helper batch
            let k = if rng.gen_bool(0.5) { l.looking.len() - 1 } else { rng.gen_range(0..l.looking.len()) };
            let col = l.looking[k].local.first().or(l.looking[k].next.first()).map(|x| x.0).unwrap();
            let row = rng.gen_range(0..n);
            let mut t2 = trace.clone();
            t2[col][row] = rng.gen_range(0..P);
            let (v, _) = violating(&spec, &t2);
            set_knobs(StarkProverKnobs { aux_trace: Some(trace.clone()), ..knobs.clone() });
            let out = attempt(&stark, &config, &t2);
            set_knobs(knobs.clone());
            judge(&mut acc, if v { "looking_value_altered+helper_columns_of_the_original_trace" } else { "looking_value_altered+helper_columns_of_the_original_trace:benign" }, v, &out, &ctx, json!({"lookup": li, "looking_column_index": k, "of": l.looking.len(), "row": row}));
        }
        // 5. filter flipped
        let fc = COLS - 1;
        let mut t2 = trace.clone();
        let row = rng.gen_range(0..n);
        t2[fc][row] = 1 - t2[fc][row].min(1);
        let (v, _) = violating(&spec, &t2);
        judge(&mut acc, if v { "filter_flipped" } else { "filter_flipped:benign(no filtered column or value unaffected)" }, v, &attempt(&stark, &config, &t2), &ctx, json!({"row": row}));
        // 6. auxiliary (helper / running-sum) column cell altered by a deviating prover on a VALID trace
        let n_aux = proof.proof.openings.auxiliary_polys.as_ref().map(|v| v.len()).unwrap_or(0);
        if n_aux > 0 {
            let p = rng.gen_range(0..n_aux);
            let row = [0usize, n - 1, rng.gen_range(0..n)][rng.gen_range(0..3)];
            set_knobs(StarkProverKnobs { aux_edits: vec![(p, row, rng.gen_range(0..P))], ..knobs.clone() });
            let out = attempt(&stark, &config, &trace);
            set_knobs(knobs.clone());
            judge(&mut acc, &format!("auxiliary_column_cell_altered_by_prover(row {})", if row == 0 { "first" } else if row == n - 1 { "last" } else { "interior" }), true, &out, &ctx, json!({"aux_poly": p, "of": n_aux, "row": row}));
        }
    }
    set_knobs(StarkProverKnobs::default());
    // tamper catalogue on the accepted proof (includes auxiliary cap and openings)
    let slots = tamper::count_stark_slots::<C>(&proof);
    let stride = (slots / if quick { 40 } else { 300 }).max(1);
    let mut k = rng.gen_range(0..stride);
    while k < slots {
        let (q, class) = tamper::tamper_stark_at::<C>(&proof, k, (k % 5) as u8, rng.gen());
        let out = match stark_verify(&stark, &config, q) {
            Ok(()) => Out::Accepted,
            Err(e) => Out::Rejected(e),
        };
        judge(&mut acc, &format!("tamper.{class}"), true, &out, &ctx, json!({"slot": k}));
        k += stride;
    }
    if case % 24 == 0 {
        acc.sample = Some(json!({"part": "column lookups", "ctx": ctx}));
    }
    let _ = F::default();
    acc
}

pub fn dispatch(seed: u64, c: u64, quick: bool) -> Acc {
    if c % 5 == 4 {
        return crate::props::c10_ctl::case_ctl(seed, c, quick);
    }
    match c % 4 {
        0 => case_lookup::<4>(seed, c, quick),
        1 => case_lookup::<6>(seed, c, quick),
        2 => case_lookup::<9>(seed, c, quick),
        _ => case_lookup::<12>(seed, c, quick),
    }
}

pub fn run(tier: Tier) -> ! {
    let mut run = Run::new("C10", "fault_enumeration", tier);
    run.rule("Part 1: STARK definitions with 1-2 column lookups (4-12 columns; plain, linear-combination-with-constant, next-row and filtered looking columns; range, repeating and boundary-valued tables; constraint degree 2 and 3; lengths 2^2..2^9; sampled StarkConfigs). Positive: prove + verify accept. Negative through the real prover (hook H4): looking cell altered, frequency +-1, table cell altered, filter flipped, auxiliary helper / running-sum cell altered at the first / last / an interior row, stride sample over the accepted proof. Part 2: multi-table systems with cross-table lookups driven through get_ctl_data / prove_with_commitment / CtlCheckVars::from_proofs / verify_stark_proof_with_challenges / verify_cross_table_lookups: 2-3 tables, 1-2 lookups, several looking tables, filters, 1-3 challenges; one missing / extra / altered value on either side, filter flips, first-row running-sum openings edited. Oracle: multiset comparison of filtered looking values with table x frequencies (part 1) / looked rows (part 2); benign edits must still be accepted.");
    run.assume("the multiset predicates in stk.rs / c10_ctl.rs are the specification");
    let quick = run.quick();
    let seed = run.seed;
    let n_cases: u64 = run.pick(400, 8000);
    let mut matrix = BTreeMap::new();
    if Run::shard_spec().is_none() {
        run.run_shards(16, 1, 3 * 3600);
        run.count("cases", n_cases);
        if run.counter("lookup_positive_traces") == 0 || run.counter("ctl_positive_systems") == 0 {
            run.inconclusive("no positive lookup trace / cross-table system was proved");
        }
    } else {
        for c in 0..n_cases {
            if !Run::in_shard(c) || run.skip_case(c) {
                continue;
            }
            let acc = dispatch(seed, c, quick);
            crate::props::c09::merge(&mut run, c, acc, &mut matrix);
        }
        run.set_extra("matrix_deviation_outcome", json!(matrix));
    }
    run.finish()
}
