//! C12 — Merkle commitments open only to the committed leaf at the committed position.
//! Reference model (naive level-by-level tree + reference verifier), hasher event-log checker
//! under varied thread pools with injected delays, path-compression round trips, batch trees.

use std::collections::{HashMap, HashSet};
use std::sync::atomic::{AtomicU64, Ordering};
use std::sync::Mutex;

use plonky2::field::goldilocks_field::GoldilocksField as F;
use plonky2::field::types::PrimeField64;
use plonky2::hash::batch_merkle_tree::BatchMerkleTree;
use plonky2::hash::keccak::KeccakHash;
use plonky2::hash::merkle_proofs::{verify_batch_merkle_proof_to_cap, verify_merkle_proof_to_cap, MerkleProof};
use plonky2::hash::merkle_tree::{MerkleCap, MerkleTree};
use plonky2::hash::poseidon::PoseidonHash;
use plonky2::plonk::config::{GenericHashOut, Hasher};
use plonky2::verif_hooks::{compress_merkle_proofs, decompress_merkle_proofs};
use rand::Rng;
use serde_json::{json, Value};

use crate::gen;
use crate::mon::{catch, norm_loc, Run, Tier};

// ---- reference model ---------------------------------------------------------------------------

pub fn ref_cap<H: Hasher<F>>(leaves: &[Vec<F>], cap_height: usize) -> Vec<H::Hash> {
    let mut layer: Vec<H::Hash> = leaves.iter().map(|l| H::hash_or_noop(l)).collect();
    while layer.len() > (1 << cap_height) {
        layer = layer.chunks(2).map(|p| H::two_to_one(p[0], p[1])).collect();
    }
    layer
}

/// All layers, bottom (leaf digests) first, up to and including the cap layer.
pub fn ref_layers<H: Hasher<F>>(leaves: &[Vec<F>], cap_height: usize) -> Vec<Vec<H::Hash>> {
    let mut layers = vec![leaves.iter().map(|l| H::hash_or_noop(l)).collect::<Vec<_>>()];
    while layers.last().unwrap().len() > (1 << cap_height) {
        let next = layers.last().unwrap().chunks(2).map(|p| H::two_to_one(p[0], p[1])).collect();
        layers.push(next);
    }
    layers
}

pub fn ref_verify<H: Hasher<F>>(leaf: &[F], mut index: usize, cap: &[H::Hash], siblings: &[H::Hash]) -> bool {
    let mut cur = H::hash_or_noop(leaf);
    for s in siblings {
        cur = if index & 1 == 1 { H::two_to_one(*s, cur) } else { H::two_to_one(cur, *s) };
        index >>= 1;
    }
    index < cap.len() && cap[index] == cur
}

fn ref_batch_cap<H: Hasher<F>>(mats: &[Vec<Vec<F>>], cap_height: usize) -> Vec<H::Hash> {
    let mut layer: Vec<H::Hash> = mats[0].iter().map(|l| H::hash_or_noop(l)).collect();
    let mut next_mat = 1;
    loop {
        if next_mat < mats.len() && mats[next_mat].len() == layer.len() {
            layer = layer
                .iter()
                .zip(&mats[next_mat])
                .map(|(d, extra)| {
                    let mut v: Vec<F> = d.to_vec();
                    v.extend_from_slice(extra);
                    H::hash_or_noop(&v)
                })
                .collect();
            next_mat += 1;
        }
        if layer.len() <= (1 << cap_height) {
            break;
        }
        layer = layer.chunks(2).map(|p| H::two_to_one(p[0], p[1])).collect();
    }
    assert_eq!(next_mat, mats.len());
    layer
}

fn ref_batch_verify<H: Hasher<F>>(data: &[Vec<F>], heights: &[usize], mut index: usize, cap: &[H::Hash], siblings: &[H::Hash]) -> bool {
    let mut cur = H::hash_or_noop(&data[0]);
    let mut h = heights[0];
    let mut k = 1;
    for s in siblings {
        cur = if index & 1 == 1 { H::two_to_one(*s, cur) } else { H::two_to_one(cur, *s) };
        index >>= 1;
        if h == 0 {
            return false;
        }
        h -= 1;
        if k < heights.len() && h == heights[k] {
            let mut v: Vec<F> = cur.to_vec();
            v.extend_from_slice(&data[k]);
            cur = H::hash_or_noop(&v);
            k += 1;
        }
    }
    k == data.len() && index < cap.len() && cap[index] == cur
}

// ---- tracing hasher (event log) ----------------------------------------------------------------

#[derive(Clone, Debug)]
struct Event {
    seq: u64,
    thread: usize,
    kind: u8, // 0 = leaf hash, 1 = two_to_one
    a: Vec<u8>,
    b: Vec<u8>,
    out: Vec<u8>,
}
static LOG: Mutex<Vec<Event>> = Mutex::new(Vec::new());
static SEQ: AtomicU64 = AtomicU64::new(0);
static DELAY_SEED: AtomicU64 = AtomicU64::new(0);

fn maybe_delay(tag: u64) {
    let s = DELAY_SEED.load(Ordering::Relaxed);
    if s == 0 {
        return;
    }
    let mut z = tag ^ s;
    z = (z ^ (z >> 30)).wrapping_mul(0xBF58476D1CE4E5B9);
    z = (z ^ (z >> 27)).wrapping_mul(0x94D049BB133111EB);
    match z % 16 {
        0 => std::thread::sleep(std::time::Duration::from_micros(50 + (z >> 8) % 200)),
        1..=4 => std::thread::yield_now(),
        _ => {}
    }
}

#[derive(Copy, Clone, Debug, Eq, PartialEq)]
pub struct Tracing<H>(std::marker::PhantomData<H>);

impl<H: Hasher<F>> Hasher<F> for Tracing<H> {
    const HASH_SIZE: usize = H::HASH_SIZE;
    type Hash = H::Hash;
    type Permutation = H::Permutation;

    fn hash_no_pad(input: &[F]) -> Self::Hash {
        maybe_delay(input.first().map(|x| x.to_canonical_u64()).unwrap_or(7));
        let out = H::hash_no_pad(input);
        let ev = Event {
            seq: SEQ.fetch_add(1, Ordering::SeqCst),
            thread: rayon::current_thread_index().unwrap_or(usize::MAX),
            kind: 0,
            a: input.iter().flat_map(|x| x.to_canonical_u64().to_le_bytes()).collect(),
            b: vec![],
            out: out.to_bytes(),
        };
        maybe_delay(ev.seq);
        LOG.lock().unwrap().push(ev);
        out
    }

    fn two_to_one(left: Self::Hash, right: Self::Hash) -> Self::Hash {
        let (a, b) = (left.to_bytes(), right.to_bytes());
        maybe_delay(a.iter().take(8).fold(0u64, |acc, &x| (acc << 8) | x as u64));
        let out = H::two_to_one(left, right);
        let ev = Event {
            seq: SEQ.fetch_add(1, Ordering::SeqCst),
            thread: rayon::current_thread_index().unwrap_or(usize::MAX),
            kind: 1,
            a,
            b,
            out: out.to_bytes(),
        };
        maybe_delay(ev.seq.wrapping_mul(31));
        LOG.lock().unwrap().push(ev);
        out
    }
}

/// Offline checker over one tree construction's event log.
fn check_log<H: Hasher<F>>(events: &[Event], leaves: &[Vec<F>], cap_height: usize, cap: &[H::Hash]) -> Result<(usize, u64), String> {
    let n = leaves.len();
    let hashed_leaves = leaves.iter().filter(|l| l.len() * 8 > H::HASH_SIZE).count();
    let leaf_events: Vec<&Event> = events.iter().filter(|e| e.kind == 0).collect();
    let node_events: Vec<&Event> = events.iter().filter(|e| e.kind == 1).collect();
    if leaf_events.len() != hashed_leaves {
        return Err(format!("leaf hash events {} != hashed leaves {}", leaf_events.len(), hashed_leaves));
    }
    if node_events.len() != n - (1 << cap_height) {
        return Err(format!("two_to_one events {} != internal nodes {}", node_events.len(), n - (1 << cap_height)));
    }
    // every hashed leaf exactly once
    let mut seen_leaf: HashSet<&[u8]> = HashSet::new();
    for e in &leaf_events {
        if !seen_leaf.insert(&e.a[..]) {
            return Err("a leaf was hashed twice".into());
        }
    }
    for l in leaves.iter().filter(|l| l.len() * 8 > H::HASH_SIZE) {
        let bytes: Vec<u8> = l.iter().flat_map(|x| x.to_canonical_u64().to_le_bytes()).collect();
        if !seen_leaf.contains(&bytes[..]) {
            return Err("a leaf was never hashed".into());
        }
    }
    // availability: every node input is a leaf digest or the output of an EARLIER event
    let mut produced: HashMap<Vec<u8>, u64> = HashMap::new(); // digest -> seq at which it became available
    for l in leaves {
        if l.len() * 8 <= H::HASH_SIZE {
            produced.insert(H::hash_or_noop(l).to_bytes(), 0);
        }
    }
    let mut sorted: Vec<&Event> = events.iter().collect();
    sorted.sort_by_key(|e| e.seq);
    let mut consumed: HashMap<Vec<u8>, u32> = HashMap::new();
    for e in &sorted {
        if e.kind == 1 {
            for inp in [&e.a, &e.b] {
                match produced.get(inp) {
                    Some(_) => *consumed.entry(inp.clone()).or_insert(0) += 1,
                    None => return Err(format!("two_to_one at seq {} consumed a digest that no earlier event produced (uninitialised or not-yet-written slot)", e.seq)),
                }
            }
        }
        produced.insert(e.out.clone(), e.seq + 1);
    }
    // every cap entry was produced
    for c in cap {
        if !produced.contains_key(&c.to_bytes()) {
            return Err("a cap entry was not produced by any event".into());
        }
    }
    let threads: HashSet<usize> = events.iter().map(|e| e.thread).collect();
    let mut h = std::collections::hash_map::DefaultHasher::new();
    use std::hash::{Hash, Hasher as _};
    for e in &sorted {
        e.thread.hash(&mut h);
        e.kind.hash(&mut h);
    }
    Ok((threads.len(), h.finish()))
}

// ---- workload ----------------------------------------------------------------------------------

struct Fails(Vec<(String, u64, Value)>);
impl Fails {
    fn push(&mut self, sig: &str, case: u64, d: Value) {
        if self.0.len() < 10 && !self.0.iter().any(|(s, _, _)| s == sig) {
            self.0.push((sig.to_string(), case, d));
        }
    }
}

fn gen_leaves<R: Rng>(rng: &mut R, bset: &[u64], n: usize, width: usize, class: u32) -> Vec<Vec<F>> {
    (0..n)
        .map(|i| {
            (0..width)
                .map(|j| match class {
                    0 => F(i as u64 * 1_000_003 + j as u64 + 1),       // unique ids
                    1 => F(gen::canon_u64(rng, bset)),                  // boundary values
                    2 => F(7),                                          // degenerate: all leaves equal
                    3 => F(if j == 0 { (i / 2) as u64 } else { 5 }),    // pairs of equal leaves
                    _ => F(rng.gen_range(0..gen::P)),
                })
                .collect()
        })
        .collect()
}

fn lib_verify<H: Hasher<F>>(leaf: &[F], idx: usize, cap: &MerkleCap<F, H>, proof: &MerkleProof<F, H>) -> bool {
    matches!(catch(|| verify_merkle_proof_to_cap(leaf.to_vec(), idx, cap, proof)), Ok(Ok(())))
}

fn tree_case<H: Hasher<F>>(run: &mut Run, fails: &mut Fails, hname: &str, case: u64, k: usize, width: usize, cap_height: usize, class: u32, threads: usize, bset: &[u64])
where
    H::Hash: PartialEq,
{
    let mut rng = run.rng(12_001, case);
    let n = 1usize << k;
    let leaves = gen_leaves(&mut rng, bset, n, width, class);
    let ctx = json!({"hasher": hname, "log_leaves": k, "width": width, "cap_height": cap_height, "leaf_class": class, "threads": threads});
    let pool = rayon::ThreadPoolBuilder::new().num_threads(threads).build().unwrap();
    let built = catch(|| pool.install(|| MerkleTree::<F, H>::new(leaves.clone(), cap_height)));
    run.eval();
    run.nontrivial(("tree", hname.to_string(), k, width, cap_height, class));
    let tree = match built {
        Ok(t) => t,
        Err(p) => {
            fails.push(&format!("merkle.new.panic@{}", norm_loc(&p.loc)), case, json!({"ctx": ctx, "panic": p.msg}));
            return;
        }
    };
    let want_cap = ref_cap::<H>(&leaves, cap_height);
    if tree.cap.0 != want_cap {
        fails.push("merkle.cap_differs_from_level_by_level_reference", case, ctx.clone());
        return;
    }
    let layers = ref_layers::<H>(&leaves, cap_height);
    let mut positions: Vec<usize> = if n <= 32 { (0..n).collect() } else { (0..10).map(|_| rng.gen_range(0..n)).chain([0, 1, n - 1, n / 2, n / 2 - 1]).collect() };
    if run.micro() && positions.len() > 1 {
        positions = vec![positions[rng.gen_range(0..positions.len())]];
    }
    for &i in &positions {
        let proof = match catch(|| tree.prove(i)) {
            Ok(p) => p,
            Err(p) => {
                fails.push(&format!("merkle.prove.panic@{}", norm_loc(&p.loc)), case, json!({"ctx": ctx, "i": i, "panic": p.msg}));
                continue;
            }
        };
        run.eval();
        // the proof must be the reference sibling path
        let want_sibs: Vec<H::Hash> = (0..k - cap_height).map(|l| layers[l][(i >> l) ^ 1]).collect();
        if proof.siblings != want_sibs {
            fails.push("merkle.prove.siblings_differ_from_reference", case, json!({"ctx": ctx, "i": i}));
        }
        if !lib_verify(&leaves[i], i, &tree.cap, &proof) {
            fails.push("merkle.honest_proof_rejected", case, json!({"ctx": ctx, "i": i}));
        }
        // differential negatives: verdict must equal the reference verdict
        let probe = |leaf: &[F], idx: usize, cap: &MerkleCap<F, H>, pr: &MerkleProof<F, H>, what: &str, run: &mut Run, fails: &mut Fails| {
            run.eval();
            let want = ref_verify::<H>(leaf, idx, &cap.0, &pr.siblings);
            let got = lib_verify(leaf, idx, cap, pr);
            run.count(if want { "probes.reference_accepts" } else { "probes.reference_rejects" }, 1);
            if got != want {
                fails.push(&format!("merkle.verify.{what}.{}", if got { "accepted_but_reference_rejects" } else { "rejected_but_reference_accepts" }), case, json!({"ctx": ctx, "i": i, "probe_index": idx}));
            }
        };
        // other leaf, same position
        let j = (i + 1 + rng.gen_range(0..n.max(2) - 1)) % n;
        probe(&leaves[j], i, &tree.cap, &proof, "other_leaf", run, fails);
        // same leaf, other position
        probe(&leaves[i], j, &tree.cap, &proof, "other_position", run, fails);
        probe(&leaves[i], i ^ 1, &tree.cap, &proof, "sibling_position", run, fails);
        probe(&leaves[i], i + n, &tree.cap, &proof, "position_plus_n", run, fails);
        // leaf with one element changed / truncated / extended
        if width > 0 {
            let mut l2 = leaves[i].clone();
            let p = rng.gen_range(0..width);
            l2[p] = F(l2[p].to_canonical_u64() ^ 1);
            probe(&l2, i, &tree.cap, &proof, "leaf_element_changed", run, fails);
            let mut l3 = leaves[i].clone();
            l3.push(F(0));
            probe(&l3, i, &tree.cap, &proof, "leaf_extended_by_zero", run, fails);
        }
        // every sibling altered (replaced by another digest of the tree, or by its neighbour)
        for s in 0..proof.siblings.len() {
            let mut p2 = proof.clone();
            p2.siblings[s] = layers[s][(i >> s) & !1usize | ((i >> s) & 1)]; // own node instead of sibling
            probe(&leaves[i], i, &tree.cap, &p2, "sibling_replaced_by_own_node", run, fails);
            let mut p3 = proof.clone();
            p3.siblings[s] = H::two_to_one(proof.siblings[s], proof.siblings[s]);
            probe(&leaves[i], i, &tree.cap, &p3, "sibling_replaced_by_fresh_digest", run, fails);
        }
        if proof.siblings.len() >= 2 {
            let mut p4 = proof.clone();
            p4.siblings.swap(0, 1);
            probe(&leaves[i], i, &tree.cap, &p4, "siblings_swapped", run, fails);
        }
        // wrong-length proofs
        if !proof.siblings.is_empty() {
            let mut p5 = proof.clone();
            p5.siblings.pop();
            probe(&leaves[i], i, &tree.cap, &p5, "proof_truncated", run, fails);
        }
        let mut p6 = proof.clone();
        p6.siblings.push(tree.cap.0[0]);
        probe(&leaves[i], i, &tree.cap, &p6, "proof_extended", run, fails);
        // every cap entry altered (bounded)
        for ci in 0..tree.cap.0.len().min(8) {
            let mut c2 = tree.cap.clone();
            c2.0[ci] = H::two_to_one(c2.0[ci], c2.0[ci]);
            probe(&leaves[i], i, &c2, &proof, "cap_entry_altered", run, fails);
        }
        if tree.cap.0.len() >= 2 {
            let mut c3 = tree.cap.clone();
            let own = i >> (k - cap_height);
            c3.0.swap(own, own ^ 1);
            probe(&leaves[i], i, &c3, &proof, "cap_entries_swapped", run, fails);
        }
    }
    // path compression round trip on index multisets with repeats
    if k - cap_height >= 1 {
        for rep in 0..3 {
            let m = [1usize, 3, 9][rep];
            let idxs: Vec<usize> = (0..m).map(|t| if t % 3 == 2 { positions[0] } else { rng.gen_range(0..n) }).collect();
            let proofs: Vec<MerkleProof<F, H>> = idxs.iter().map(|&i| tree.prove(i)).collect();
            let data: Vec<Vec<F>> = idxs.iter().map(|&i| leaves[i].clone()).collect();
            run.eval();
            let rt = catch(|| {
                let c = compress_merkle_proofs(cap_height, &idxs, &proofs);
                let total: usize = c.iter().map(|p| p.siblings.len()).sum();
                (decompress_merkle_proofs(&data, &idxs, &c, k, cap_height), total)
            });
            match rt {
                Ok((d, total)) => {
                    run.count("path_compression.siblings_kept", total as u64);
                    run.count("path_compression.siblings_original", proofs.iter().map(|p| p.siblings.len() as u64).sum());
                    if d != proofs {
                        fails.push("merkle.path_compression.roundtrip_differs", case, json!({"ctx": ctx, "indices": idxs}));
                    }
                }
                Err(p) => fails.push(&format!("merkle.path_compression.panic@{}", norm_loc(&p.loc)), case, json!({"ctx": ctx, "indices": idxs, "panic": p.msg})),
            }
        }
    }
}

fn schedule_case<H: Hasher<F>>(run: &mut Run, fails: &mut Fails, hname: &str, case: u64, k: usize, width: usize, cap_height: usize, threads: usize, sigs: &mut HashSet<u64>, bset: &[u64]) {
    let mut rng = run.rng(12_002, case);
    let leaves = gen_leaves(&mut rng, bset, 1 << k, width, 0);
    LOG.lock().unwrap().clear();
    DELAY_SEED.store(rng.gen::<u64>() | 1, Ordering::Relaxed);
    let pool = rayon::ThreadPoolBuilder::new().num_threads(threads).build().unwrap();
    let built = catch(|| pool.install(|| MerkleTree::<F, Tracing<H>>::new(leaves.clone(), cap_height)));
    DELAY_SEED.store(0, Ordering::Relaxed);
    let events: Vec<Event> = std::mem::take(&mut *LOG.lock().unwrap());
    run.eval();
    let ctx = json!({"hasher": hname, "log_leaves": k, "width": width, "cap_height": cap_height, "threads": threads});
    match built {
        Ok(tree) => {
            let want = ref_cap::<H>(&leaves, cap_height);
            if tree.cap.0 != want {
                fails.push("merkle.schedule.cap_depends_on_schedule_or_differs", case, ctx.clone());
            }
            match check_log::<H>(&events, &leaves, cap_height, &want) {
                Ok((nthreads, sig)) => {
                    sigs.insert(sig);
                    run.count("schedule.events_checked", events.len() as u64);
                    let key = format!("schedule.pool{threads}.runs_with_{}_workers", nthreads.min(threads));
                    run.count(&key, 1);
                }
                Err(why) => fails.push(&format!("merkle.schedule.log_check: {}", crate::mon::msg_class(&why)), case, json!({"ctx": ctx, "why": why})),
            }
            // proofs from a tree built under this schedule still verify
            let i = rng.gen_range(0..1usize << k);
            let pr = tree.prove(i);
            if !ref_verify::<H>(&leaves[i], i, &want, &pr.siblings) {
                fails.push("merkle.schedule.proof_invalid", case, ctx.clone());
            }
        }
        Err(p) => fails.push(&format!("merkle.schedule.new.panic@{}", norm_loc(&p.loc)), case, json!({"ctx": ctx, "panic": p.msg})),
    }
}

fn batch_case<H: Hasher<F>>(run: &mut Run, fails: &mut Fails, hname: &str, case: u64, bset: &[u64]) {
    let mut rng = run.rng(12_003, case);
    let nm = rng.gen_range(1..=4usize);
    let top = rng.gen_range(nm.max(1) - 1..=9usize).max(nm - 1);
    // strictly decreasing log-heights
    let mut hs: Vec<usize> = vec![top];
    while hs.len() < nm {
        let last = *hs.last().unwrap();
        if last == 0 {
            break;
        }
        hs.push(rng.gen_range(0..last));
    }
    let cap_height = rng.gen_range(0..=*hs.last().unwrap());
    let mats: Vec<Vec<Vec<F>>> = hs
        .iter()
        .enumerate()
        .map(|(m, &h)| {
            let width = [1usize, 3, 4, 5, 9, 13][rng.gen_range(0..6)];
            (0..1usize << h).map(|i| (0..width).map(|j| if rng.gen_bool(0.2) { F(gen::canon_u64(&mut rng, bset)) } else { F((m * 1_000_000 + i * 100 + j + 1) as u64) }).collect()).collect()
        })
        .collect();
    let ctx = json!({"hasher": hname, "log_heights": hs, "cap_height": cap_height, "widths": mats.iter().map(|m| m[0].len()).collect::<Vec<_>>()});
    run.eval();
    run.nontrivial(("batch", hname.to_string(), hs.clone(), cap_height));
    let tree = match catch(|| BatchMerkleTree::<F, H>::new(mats.clone(), cap_height)) {
        Ok(t) => t,
        Err(p) => {
            fails.push(&format!("batch_merkle.new.panic@{}", norm_loc(&p.loc)), case, json!({"ctx": ctx, "panic": p.msg}));
            return;
        }
    };
    let want = ref_batch_cap::<H>(&mats, cap_height);
    if tree.cap.0 != want {
        fails.push("batch_merkle.cap_differs_from_reference", case, ctx.clone());
        return;
    }
    let n = 1usize << hs[0];
    for _ in 0..6 {
        let i = rng.gen_range(0..n);
        run.eval();
        let res = catch(|| {
            let proof = tree.open_batch(i);
            let vals = tree.values(i);
            (proof, vals)
        });
        let (proof, vals) = match res {
            Ok(x) => x,
            Err(p) => {
                fails.push(&format!("batch_merkle.open.panic@{}", norm_loc(&p.loc)), case, json!({"ctx": ctx, "i": i, "panic": p.msg}));
                continue;
            }
        };
        let want_vals: Vec<Vec<F>> = mats.iter().zip(&hs).map(|(m, &h)| m[i >> (hs[0] - h)].clone()).collect();
        if vals != want_vals {
            fails.push("batch_merkle.values_differ", case, json!({"ctx": ctx, "i": i}));
        }
        let lib = |data: &[Vec<F>], idx: usize, cap: &MerkleCap<F, H>, pr: &MerkleProof<F, H>| matches!(catch(|| verify_batch_merkle_proof_to_cap(data, &tree.leaf_heights, idx, cap, pr)), Ok(Ok(())));
        if !lib(&vals, i, &tree.cap, &proof) || !ref_batch_verify::<H>(&vals, &hs, i, &want, &proof.siblings) {
            fails.push("batch_merkle.honest_opening_rejected", case, json!({"ctx": ctx, "i": i}));
        }
        // differential negatives
        for m in 0..vals.len() {
            let mut v2 = vals.clone();
            let p = rng.gen_range(0..v2[m].len());
            v2[m][p] = F(v2[m][p].to_canonical_u64() ^ 1);
            run.eval();
            let (w, g) = (ref_batch_verify::<H>(&v2, &hs, i, &want, &proof.siblings), lib(&v2, i, &tree.cap, &proof));
            if w != g {
                fails.push("batch_merkle.verify.leaf_changed.verdict_differs_from_reference", case, json!({"ctx": ctx, "i": i, "matrix": m}));
            }
        }
        for s in 0..proof.siblings.len() {
            let mut p2 = proof.clone();
            p2.siblings[s] = H::two_to_one(p2.siblings[s], p2.siblings[s]);
            run.eval();
            let (w, g) = (ref_batch_verify::<H>(&vals, &hs, i, &want, &p2.siblings), lib(&vals, i, &tree.cap, &p2));
            if w != g {
                fails.push("batch_merkle.verify.sibling_changed.verdict_differs_from_reference", case, json!({"ctx": ctx, "i": i, "sibling": s}));
            }
        }
        let j = (i + 1 + rng.gen_range(0..n.max(2) - 1)) % n;
        run.eval();
        let (w, g) = (ref_batch_verify::<H>(&vals, &hs, j, &want, &proof.siblings), lib(&vals, j, &tree.cap, &proof));
        if w != g {
            fails.push("batch_merkle.verify.other_position.verdict_differs_from_reference", case, json!({"ctx": ctx, "i": i, "j": j}));
        }
    }
}

pub fn run(tier: Tier) -> ! {
    let mut run = Run::new("C12", "exploration", tier);
    run.rule("trees over 2^k leaves (k=0..10 quick / 0..13 thorough) x leaf widths {1..4 (stored verbatim), 5..20 (hashed)} x every cap height x {unique-id, boundary-valued, all-equal, pairwise-equal, uniform} leaf classes x {Poseidon, Keccak} built under pools of 1,2,3,5,8,16 threads; each proof is compared with the reference sibling path and ~20 altered (leaf, position, sibling, cap, length) probes per position are decided by a reference verifier — the library's verdict must equal the reference verdict. Schedule monitor: a tracing Hasher logs every hash call (seq, worker thread, inputs, output) with injected yields/sleeps; an offline checker demands exactly-once hashing and that every consumed digest was produced by an earlier event. distinct = distinct (hasher, k, width, cap height, class) shapes + distinct batch shapes.");
    run.assume("reference tree/verifier use the same H::two_to_one / H::hash_or_noop primitives (their correctness is C13's subject)");
    let bset = gen::boundary_set();
    let mut fails = Fails(vec![]);
    let quick = run.quick();
    let micro = run.micro();
    let max_k = if micro { 2 } else if quick { 9 } else { 13 };
    let pools: &[usize] = if micro { &[1, 3] } else { &[1, 2, 3, 5, 8, 16] };
    let mut case = 0u64;
    for k in 0..=max_k {
        for (wi, &width) in [1usize, 4, 5, 8, 20, 3, 13].iter().enumerate() {
            if quick && wi >= 5 && k > 4 {
                continue;
            }
            if micro && !(wi == 0 || wi == 2) {
                continue;
            }
            for cap_height in 0..=k {
                if k > 6 && !(cap_height <= 2 || cap_height >= k - 1 || cap_height == k / 2) {
                    continue;
                }
                let class = ((k + wi + cap_height) % 5) as u32;
                let threads = pools[(k + wi + cap_height) % pools.len()];
                case += 1;
                // (micro tier: a Poseidon permutation costs ~0.1 s under Miri; Poseidon trees stay at <= 2 leaves)
                if !run.skip_case(case) && !(micro && k > 1) {
                    tree_case::<PoseidonHash>(&mut run, &mut fails, "poseidon", case, k, width, cap_height, class, threads, &bset);
                }
                case += 1;
                if ((k + wi) % 2 == 0 || micro) && !run.skip_case(case) {
                    tree_case::<KeccakHash<25>>(&mut run, &mut fails, "keccak", case, k, width, cap_height, (class + 1) % 5, threads, &bset);
                }
            }
        }
    }
    run.count("single_tree_cases", case);
    // schedule monitor
    let mut sigs: HashSet<u64> = HashSet::new();
    let reps = if micro { 1 } else if quick { 3 } else { 25 };
    let shapes: &[(usize, usize, usize)] = if micro { &[(2, 5, 0), (3, 3, 1)] } else { &[(6, 5, 0), (7, 8, 2), (8, 3, 1), (5, 9, 5), (9, 6, 3)] };
    for rep in 0..reps {
        for &threads in pools {
            for &(k, width, cap_height) in shapes {
                case += 1;
                if run.skip_case(case) {
                    continue;
                }
                if (rep + k) % 2 == 0 {
                    schedule_case::<PoseidonHash>(&mut run, &mut fails, "poseidon", case, k, width, cap_height, threads, &mut sigs, &bset);
                } else {
                    schedule_case::<KeccakHash<25>>(&mut run, &mut fails, "keccak", case, k, width, cap_height, threads, &mut sigs, &bset);
                }
            }
        }
    }
    run.set_extra("schedule_distinct_thread_assignment_sequences", json!(sigs.len()));
    if sigs.len() < 2 && run.only_case.is_none() && !micro {
        run.inconclusive("schedule monitor observed fewer than 2 distinct interleavings");
    }
    // batch trees
    for b in 0..run.n(1, 150, 3000) {
        case += 1;
        if run.skip_case(case) {
            continue;
        }
        if b % 3 == 2 {
            batch_case::<KeccakHash<25>>(&mut run, &mut fails, "keccak", case, &bset);
        } else {
            batch_case::<PoseidonHash>(&mut run, &mut fails, "poseidon", case, &bset);
        }
    }
    run.sample(json!({"tree": {"hasher": "poseidon", "log_leaves": 5, "width": 5, "cap_height": 2, "leaf_class": "unique ids"}, "probes": ["other_leaf", "other_position", "sibling_replaced", "cap_entry_altered", "proof_truncated", "proof_extended"]}));
    run.sample(json!({"schedule_run": {"log_leaves": 7, "width": 8, "cap_height": 2, "pool_threads": 5, "events": "127 two_to_one + 128 leaf hashes, each with seq/thread/inputs/output"}}));
    for (sig, case, d) in fails.0 {
        run.violation(&sig, case, d);
    }
    run.finish()
}
