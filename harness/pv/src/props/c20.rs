//! C20 — conditional and cyclic recursion enforce exactly the selected verification.
//!
//! Part 1: truth table of `conditionally_verify_proof` over {proof0 valid/invalid} x {proof1
//! valid/invalid} x condition x verifier data right/wrong per branch; expected = native verdict of the
//! selected (proof, verifier data); circuit verdict by witness generation + satisfaction oracle.
//! Part 2: dummy circuits / dummy proofs for every common-data shape in the pool.
//! Part 3: cyclic hash-chain circuit; every link verifies, carries the circuit's own verifier data,
//! matches the reference iteration; altered embedded verifier data are rejected by
//! `check_cyclic_proof_verifier_data`; a chain started under foreign verifier data cannot be extended.

use std::collections::BTreeMap;

use hashbrown::HashMap;
use plonky2::field::goldilocks_field::GoldilocksField as F;
use plonky2::field::types::{Field, PrimeField64};
use plonky2::gates::noop::NoopGate;
use plonky2::hash::hash_types::HashOutTarget;
use plonky2::hash::poseidon::PoseidonHash;
use plonky2::iop::target::{BoolTarget, Target};
use plonky2::iop::witness::{PartialWitness, WitnessWrite};
use plonky2::plonk::circuit_builder::CircuitBuilder;
use plonky2::plonk::circuit_data::{CircuitConfig, CircuitData, CommonCircuitData, VerifierCircuitTarget, VerifierOnlyCircuitData};
use plonky2::plonk::config::{GenericConfig, Hasher};
use plonky2::plonk::proof::{ProofWithPublicInputs, ProofWithPublicInputsTarget};
use plonky2::recursion::cyclic_recursion::check_cyclic_proof_verifier_data;
use plonky2::recursion::dummy_circuit::{cyclic_base_proof, dummy_circuit, dummy_proof};
use rand::Rng;
use serde_json::{json, Value};

use crate::circ::{self, GenOpts, D};
use crate::gen;
use crate::mon::{catch, msg_class, norm_loc, Run, Tier};
use crate::poseidon_consts::{MDS_CIRC, MDS_DIAG, ROUND_CONSTANTS};
use crate::props::c06::{judge_assignment, Acc, CircuitVerdict, PC};
use crate::refmodel::{sponge_hash_no_pad, PoseidonRef};
use crate::sat::SatCtx;
use crate::tamper::{self, HashTamper};

const P: u64 = 0xFFFF_FFFF_0000_0001;

// ---- part 1: conditional verification ------------------------------------------------------------

struct CondOuter {
    data: CircuitData<F, PC, D>,
    cond: BoolTarget,
    pt0: ProofWithPublicInputsTarget<D>,
    vd0: VerifierCircuitTarget,
    pt1: ProofWithPublicInputsTarget<D>,
    vd1: VerifierCircuitTarget,
    ctx: SatCtx,
}

fn build_cond_outer(common: &CommonCircuitData<F, D>) -> Result<CondOuter, String> {
    let cd = common.clone();
    catch(move || {
        let mut b = CircuitBuilder::<F, D>::new(CircuitConfig::standard_recursion_config());
        let cond = b.add_virtual_bool_target_safe();
        let pt0 = b.add_virtual_proof_with_pis(&cd);
        let pt1 = b.add_virtual_proof_with_pis(&cd);
        let vd0 = b.add_virtual_verifier_data(cd.config.fri_config.cap_height);
        let vd1 = b.add_virtual_verifier_data(cd.config.fri_config.cap_height);
        b.conditionally_verify_proof::<PC>(cond, &pt0, &vd0, &pt1, &vd1, &cd);
        let data = b.build::<PC>();
        (data, cond, pt0, vd0, pt1, vd1)
    })
    .map_err(|p| format!("{} @ {}", p.msg, norm_loc(&p.loc)))
    .and_then(|(data, cond, pt0, vd0, pt1, vd1)| {
        let ctx = SatCtx::new(&data.prover_only, &data.common)?;
        Ok(CondOuter { data, cond, pt0, vd0, pt1, vd1, ctx })
    })
}

fn case_conditional(seed: u64, case: u64, quick: bool) -> Acc
where
    <<PC as GenericConfig<D>>::Hasher as Hasher<F>>::Hash: HashTamper,
{
    let mut acc = Acc::default();
    let mut rng = crate::mon::case_rng(seed, 20_001, case);
    let bset = gen::boundary_set();
    let opts = GenOpts { n_ops: rng.gen_range(5..if quick { 120 } else { 500 }), lookups: case % 4 == 2, hashing: rng.gen_bool(0.5), extension: true, max_table_len: 50, only_base2: false };
    let (prog_a, inputs) = circ::gen_program(&mut rng, &bset, &opts);
    let config = crate::props::c06::inner_config(&mut rng);
    // sibling circuit B: one more constant, same shape
    let mut prog_b = prog_a.clone();
    prog_b.ops.push(circ::Op::Const(1_000_003 + case));
    let (a, b) = match (circ::make_proven::<PC>(prog_a, inputs.clone(), config.clone()), circ::make_proven::<PC>(prog_b, inputs, config.clone())) {
        (Ok(a), Ok(b)) => (a, b),
        (Err(e), _) | (_, Err(e)) => {
            acc.c(&format!("conditional.inner_not_built: {}", msg_class(&e).chars().take(60).collect::<String>()));
            return acc;
        }
    };
    if a.built.data.common != b.built.data.common {
        acc.c("conditional.sibling_has_other_common_data(skipped)");
        return acc;
    }
    let common = a.built.data.common.clone();
    let desc = json!({"program": a.prog.describe(), "config": circ::describe_config(&config), "degree_bits": common.degree_bits()});
    let outer = match build_cond_outer(&common) {
        Ok(o) => o,
        Err(e) => {
            acc.c(&format!("conditional.outer_not_built: {}", msg_class(&e).chars().take(60).collect::<String>()));
            return acc;
        }
    };
    acc.c("conditional.outer_circuits");
    if !a.prog.tables.is_empty() {
        acc.c("conditional.inner_shapes_with_lookup_tables");
    }
    acc.keys.push(format!("cond|{desc}"));
    let (vda, vdb) = (a.built.data.verifier_only.clone(), b.built.data.verifier_only.clone());
    // invalid variants: a value inside the proof changed (shape intact, still assignable)
    let bad = |p: &ProofWithPublicInputs<F, PC, D>, rng: &mut rand_chacha::ChaCha8Rng| -> ProofWithPublicInputs<F, PC, D> {
        let n = tamper::count_slots::<PC>(p);
        loop {
            let (q, class) = tamper::tamper_at::<PC>(p, rng.gen_range(0..n), 0, rng.gen());
            if class.starts_with("openings.") || class == "wires_cap" || class == "fri.final_poly" || class == "public_input" {
                return q;
            }
        }
    };
    let proofs0 = [("valid", a.proof.clone()), ("invalid", bad(&a.proof, &mut rng))];
    let proofs1 = [("valid", b.proof.clone()), ("invalid", bad(&b.proof, &mut rng))];
    let native = |p: &ProofWithPublicInputs<F, PC, D>, vd: &VerifierOnlyCircuitData<PC, D>| -> bool {
        let v = plonky2::plonk::circuit_data::VerifierCircuitData { verifier_only: vd.clone(), common: common.clone() };
        matches!(catch(|| v.verify(p.clone())), Ok(Ok(())))
    };
    for (n0, p0) in proofs0.iter() {
        for (n1, p1) in proofs1.iter() {
            for cond in [true, false] {
                for (v0n, v0) in [("own", &vda), ("other", &vdb)] {
                    for (v1n, v1) in [("own", &vdb), ("other", &vda)] {
                        let expected = if cond { native(p0, v0) } else { native(p1, v1) };
                        let assigned = catch(|| -> anyhow::Result<PartialWitness<F>> {
                            let mut pw = PartialWitness::<F>::new();
                            pw.set_bool_target(outer.cond, cond)?;
                            pw.set_proof_with_pis_target(&outer.pt0, p0)?;
                            pw.set_proof_with_pis_target(&outer.pt1, p1)?;
                            pw.set_verifier_data_target(&outer.vd0, v0)?;
                            pw.set_verifier_data_target(&outer.vd1, v1)?;
                            Ok(pw)
                        });
                        let verdict = judge_assignment(&outer.data, &outer.ctx, assigned);
                        let got = matches!(verdict, CircuitVerdict::Accepted(_));
                        acc.evals += 1;
                        let class = format!("condition={} proof0={n0}/vd0={v0n} proof1={n1}/vd1={v1n}", cond as u8);
                        acc.keys.push(format!("cond.{class}"));
                        *acc.matrix.entry(format!("{class} | selected pair natively {} | circuit {}", if expected { "valid" } else { "invalid" }, match &verdict { CircuitVerdict::Accepted(_) => "ACCEPTS".to_string(), CircuitVerdict::Rejected(e) => format!("rejects: {e}") })).or_insert(0) += 1;
                        if expected != got {
                            acc.fails.push((format!("conditional.circuit_{}_although_selected_pair_is_{}", if got { "accepts" } else { "rejects" }, if expected { "valid" } else { "invalid" }), json!({"case": case, "inner": desc, "combination": class})));
                        }
                    }
                }
            }
        }
    }
    if case % 3 == 0 {
        acc.sample = Some(json!({"part": "conditional", "inner": desc, "outer_degree_bits": outer.data.common.degree_bits()}));
    }
    acc
}

// ---- part 2: dummy circuits ----------------------------------------------------------------------

fn case_dummy(seed: u64, case: u64, quick: bool) -> Acc {
    let mut acc = Acc::default();
    let mut rng = crate::mon::case_rng(seed, 20_002, case);
    let bset = gen::boundary_set();
    let opts = GenOpts { n_ops: rng.gen_range(1..if quick { 200 } else { 1200 }), lookups: false, hashing: rng.gen_bool(0.5), extension: rng.gen_bool(0.7), max_table_len: 0, only_base2: false };
    let (prog, _) = circ::gen_program(&mut rng, &bset, &opts);
    let mut config = crate::props::c06::inner_config(&mut rng);
    config.zero_knowledge = false; // dummy_circuit documents that it does not support zero knowledge
    let built = match catch(|| circ::build::<PC>(&prog, &config)) {
        Ok(b) => b,
        Err(_) => return acc,
    };
    let common = built.data.common.clone();
    let desc = json!({"degree_bits": common.degree_bits(), "gates": common.gates.len(), "public_inputs": common.num_public_inputs, "config": circ::describe_config(&config)});
    acc.keys.push(format!("dummy|{desc}"));
    let dc = match catch(|| dummy_circuit::<F, PC, D>(&common)) {
        Ok(c) => c,
        Err(p) => {
            // the helper refuses shapes it cannot reproduce; no dummy proof exists then
            acc.c(&format!("dummy.shape_refused_by_dummy_circuit: {}", msg_class(&p.msg).chars().take(50).collect::<String>()));
            return acc;
        }
    };
    acc.evals += 1;
    acc.c("dummy.circuits_built");
    if dc.common != common {
        acc.fails.push(("dummy.circuit_has_other_common_data".into(), json!({"shape": desc})));
    }
    let mut nz: HashMap<usize, F> = HashMap::new();
    for i in 0..common.num_public_inputs {
        if rng.gen_bool(0.5) {
            nz.insert(i, F(gen::canon_u64(&mut rng, &bset)));
        }
    }
    match catch(|| dummy_proof::<F, PC, D>(&dc, nz.clone())) {
        Ok(Ok(p)) => {
            acc.evals += 1;
            for i in 0..common.num_public_inputs {
                if p.public_inputs[i] != nz.get(&i).copied().unwrap_or(F::ZERO) {
                    acc.fails.push(("dummy.proof_public_inputs_differ_from_requested".into(), json!({"shape": desc, "index": i})));
                    break;
                }
            }
            if !matches!(catch(|| dc.verify(p.clone())), Ok(Ok(()))) {
                acc.fails.push(("dummy.proof_not_valid_for_its_dummy_circuit".into(), json!({"shape": desc})));
            }
            // and not for the circuit whose shape it mimics
            if matches!(catch(|| built.data.verify(p)), Ok(Ok(()))) && built.data.verifier_only.circuit_digest != dc.verifier_only.circuit_digest {
                acc.fails.push(("dummy.proof_accepted_by_the_real_circuit".into(), json!({"shape": desc})));
            }
        }
        other => acc.fails.push(("dummy.proof_generation_failed".into(), json!({"shape": desc, "err": format!("{:?}", other.map(|r| r.map(|_| ()).map_err(|e| e.to_string())).map_err(|p| p.msg))}))),
    }
    acc
}

// ---- part 3: cyclic recursion ---------------------------------------------------------------------

struct Cyclic {
    data: CircuitData<F, PC, D>,
    common: CommonCircuitData<F, D>,
    condition: BoolTarget,
    inner: ProofWithPublicInputsTarget<D>,
    vdt: VerifierCircuitTarget,
    initial_hash: HashOutTarget,
    _counter: Target,
}

fn common_data_for_recursion(pad_bits: usize) -> CommonCircuitData<F, D> {
    let config = CircuitConfig::standard_recursion_config();
    let builder = CircuitBuilder::<F, D>::new(config.clone());
    let data = builder.build::<PC>();
    let mut builder = CircuitBuilder::<F, D>::new(config.clone());
    let proof = builder.add_virtual_proof_with_pis(&data.common);
    let vd = builder.add_virtual_verifier_data(data.common.config.fri_config.cap_height);
    builder.verify_proof::<PC>(&proof, &vd, &data.common);
    let data = builder.build::<PC>();
    let mut builder = CircuitBuilder::<F, D>::new(config);
    let proof = builder.add_virtual_proof_with_pis(&data.common);
    let vd = builder.add_virtual_verifier_data(data.common.config.fri_config.cap_height);
    builder.verify_proof::<PC>(&proof, &vd, &data.common);
    while builder.num_gates() < 1 << pad_bits {
        builder.add_gate(NoopGate, vec![]);
    }
    builder.build::<PC>().common
}

fn build_cyclic() -> Result<Cyclic, String> {
    catch(|| -> anyhow::Result<Cyclic> {
        let mut builder = CircuitBuilder::<F, D>::new(CircuitConfig::standard_recursion_config());
        let one = builder.one();
        let initial_hash = builder.add_virtual_hash();
        builder.register_public_inputs(&initial_hash.elements);
        let current_in = builder.add_virtual_hash();
        let current_out = builder.hash_n_to_hash_no_pad::<PoseidonHash>(current_in.elements.to_vec());
        builder.register_public_inputs(&current_out.elements);
        let counter = builder.add_virtual_public_input();
        let mut common = common_data_for_recursion(12);
        let vdt = builder.add_verifier_data_public_inputs();
        common.num_public_inputs = builder.num_public_inputs();
        let condition = builder.add_virtual_bool_target_safe();
        let inner = builder.add_virtual_proof_with_pis(&common);
        let pis = &inner.public_inputs;
        let inner_initial = HashOutTarget::try_from(&pis[0..4]).unwrap();
        let inner_latest = HashOutTarget::try_from(&pis[4..8]).unwrap();
        let inner_counter = pis[8];
        builder.connect_hashes(initial_hash, inner_initial);
        let actual_in = HashOutTarget { elements: core::array::from_fn(|i| builder.select(condition, inner_latest.elements[i], initial_hash.elements[i])) };
        builder.connect_hashes(current_in, actual_in);
        let new_counter = builder.mul_add(condition.target, inner_counter, one);
        builder.connect(counter, new_counter);
        builder.conditionally_verify_cyclic_proof_or_dummy::<PC>(condition, &inner, &common)?;
        let data = builder.build::<PC>();
        Ok(Cyclic { data, common, condition, inner, vdt, initial_hash, _counter: counter })
    })
    .map_err(|p| format!("{} @ {}", p.msg, norm_loc(&p.loc)))?
    .map_err(|e| e.to_string())
}

fn ref_hash(x: &[u64]) -> Vec<u64> {
    let pr = PoseidonRef { round_constants: ROUND_CONSTANTS.to_vec(), mds_circ: MDS_CIRC, mds_diag: MDS_DIAG };
    sponge_hash_no_pad(&|s| pr.permute(s), x, 4)
}

fn case_cyclic(seed: u64, case: u64, quick: bool) -> Acc {
    let mut acc = Acc::default();
    let mut rng = crate::mon::case_rng(seed, 20_003, case);
    let bset = gen::boundary_set();
    let cyc = match build_cyclic() {
        Ok(c) => c,
        Err(e) => {
            acc.fails.push(("cyclic.circuit_not_buildable".into(), json!({"err": e})));
            return acc;
        }
    };
    acc.c("cyclic.circuits");
    acc.keys.push(format!("cyclic|{case}"));
    if cyc.data.common != cyc.common {
        acc.fails.push(("cyclic.circuit_common_data_differs_from_goal".into(), json!({})));
        return acc;
    }
    let real_vd = cyc.data.verifier_only.clone();
    let initial: Vec<u64> = (0..4).map(|_| gen::canon_u64(&mut rng, &bset)).collect();
    let base_pis: HashMap<usize, F> = initial.iter().enumerate().map(|(i, v)| (i, F(*v))).collect();
    let chain_len = if quick { 2 } else { 4 };
    let cap_elems = cyc.common.config.fri_config.num_cap_elements();
    let n_pis = cyc.common.num_public_inputs;
    let vk_start = n_pis - 4 - 4 * cap_elems;
    let expected_vk: Vec<u64> = real_vd.circuit_digest.elements.iter().map(|x| x.to_canonical_u64()).chain(real_vd.constants_sigmas_cap.0.iter().flat_map(|h| h.elements.iter().map(|x| x.to_canonical_u64()).collect::<Vec<_>>())).collect();
    let mut prev: Option<ProofWithPublicInputs<F, PC, D>> = None;
    let mut cur_hash = initial.clone();
    for link in 0..chain_len {
        let mut pw = PartialWitness::<F>::new();
        let ok = (|| -> anyhow::Result<()> {
            pw.set_bool_target(cyc.condition, prev.is_some())?;
            match &prev {
                None => pw.set_proof_with_pis_target::<PC, D>(&cyc.inner, &cyclic_base_proof(&cyc.common, &real_vd, base_pis.clone()))?,
                Some(p) => pw.set_proof_with_pis_target(&cyc.inner, p)?,
            }
            pw.set_verifier_data_target(&cyc.vdt, &real_vd)?;
            Ok(())
        })();
        if let Err(e) = ok {
            acc.fails.push(("cyclic.assignment_failed_for_honest_link".into(), json!({"link": link, "err": e.to_string()})));
            return acc;
        }
        let proof = match catch(|| cyc.data.prove(pw)) {
            Ok(Ok(p)) => p,
            other => {
                acc.evals += 1;
                acc.fails.push(("cyclic.honest_link_not_provable".into(), json!({"link": link, "err": format!("{:?}", other.map(|r| r.map(|_| ()).map_err(|e| e.to_string())).map_err(|p| p.msg))})));
                return acc;
            }
        };
        acc.evals += 1;
        acc.c("cyclic.links_proved");
        cur_hash = ref_hash(&cur_hash);
        let pis: Vec<u64> = proof.public_inputs.iter().map(|x| x.to_canonical_u64()).collect();
        if !matches!(catch(|| cyc.data.verify(proof.clone())), Ok(Ok(()))) {
            acc.fails.push(("cyclic.link_does_not_verify".into(), json!({"link": link})));
        }
        if !matches!(catch(|| check_cyclic_proof_verifier_data(&proof, &real_vd, &cyc.common)), Ok(Ok(()))) {
            acc.fails.push(("cyclic.verifier_data_check_rejects_honest_link".into(), json!({"link": link})));
        }
        // history oracle
        if pis[0..4] != initial[..] || pis[4..8] != cur_hash[..] || pis[8] != link as u64 + 1 {
            acc.fails.push(("cyclic.public_inputs_differ_from_reference_iteration".into(), json!({"link": link, "got": &pis[0..9], "want_hash": cur_hash, "want_counter": link + 1})));
        }
        if pis[vk_start..] != expected_vk[..] {
            acc.fails.push(("cyclic.embedded_verifier_data_differ_from_the_circuits_own".into(), json!({"link": link})));
        }
        // every single-element alteration of the embedded verifier data is rejected by the check
        for i in vk_start..n_pis {
            let mut q = proof.clone();
            q.public_inputs[i] = F((pis[i] + 1 + rng.gen_range(0..7)) % P);
            acc.evals += 1;
            acc.c("cyclic.embedded_vk_element_alterations");
            if matches!(catch(|| check_cyclic_proof_verifier_data(&q, &real_vd, &cyc.common)), Ok(Ok(()))) {
                acc.fails.push(("cyclic.verifier_data_check_accepts_altered_embedded_data".into(), json!({"link": link, "public_input": i, "offset_in_vk": i - vk_start})));
            }
        }
        // and the check against a foreign verifier data rejects the honest proof
        {
            let mut vd2 = real_vd.clone();
            vd2.circuit_digest.bump(0, rng.gen());
            let mut vd3 = real_vd.clone();
            let k = rng.gen_range(0..vd3.constants_sigmas_cap.0.len());
            vd3.constants_sigmas_cap.0[k].bump(0, rng.gen());
            for (name, v) in [("digest", vd2), ("cap_entry", vd3)] {
                acc.evals += 1;
                if matches!(catch(|| check_cyclic_proof_verifier_data(&proof, &v, &cyc.common)), Ok(Ok(()))) {
                    acc.fails.push((format!("cyclic.verifier_data_check_accepts_foreign_{name}"), json!({"link": link})));
                }
            }
        }
        prev = Some(proof);
    }
    // ---- a chain started under foreign verifier data -------------------------------------------
    {
        let mut foreign = real_vd.clone();
        foreign.circuit_digest.bump(1, rng.gen());
        let mut pw = PartialWitness::<F>::new();
        let r = (|| -> anyhow::Result<()> {
            pw.set_bool_target(cyc.condition, false)?;
            pw.set_proof_with_pis_target::<PC, D>(&cyc.inner, &cyclic_base_proof(&cyc.common, &foreign, base_pis.clone()))?;
            pw.set_verifier_data_target(&cyc.vdt, &foreign)?;
            Ok(())
        })();
        if r.is_ok() {
            if let Ok(Ok(p)) = catch(|| cyc.data.prove(pw)) {
                acc.evals += 1;
                acc.c("cyclic.base_links_with_foreign_embedded_data");
                // it is a proof of this circuit (verifies), but the verifier-data check must expose it
                if matches!(catch(|| check_cyclic_proof_verifier_data(&p, &real_vd, &cyc.common)), Ok(Ok(()))) {
                    acc.fails.push(("cyclic.verifier_data_check_accepts_link_with_foreign_embedded_data".into(), json!({})));
                }
                // extending it: with the real data the connection to the inner proof's embedded data is violated,
                // with the foreign data the inner proof (made by the real circuit) does not verify
                for (name, vd_next) in [("real", &real_vd), ("foreign", &foreign)] {
                    let mut pw2 = PartialWitness::<F>::new();
                    let r2 = (|| -> anyhow::Result<()> {
                        pw2.set_bool_target(cyc.condition, true)?;
                        pw2.set_proof_with_pis_target(&cyc.inner, &p)?;
                        pw2.set_verifier_data_target(&cyc.vdt, vd_next)?;
                        Ok(())
                    })();
                    if r2.is_err() {
                        continue;
                    }
                    acc.evals += 1;
                    let extended = match catch(|| cyc.data.prove(pw2)) {
                        Ok(Ok(p2)) => matches!(catch(|| cyc.data.verify(p2.clone())), Ok(Ok(()))) && matches!(catch(|| check_cyclic_proof_verifier_data(&p2, &real_vd, &cyc.common)), Ok(Ok(()))),
                        _ => false,
                    };
                    *acc.matrix.entry(format!("extend link with foreign embedded data, next link claims {name} data | {}", if extended { "EXTENDED" } else { "not extendable" })).or_insert(0) += 1;
                    if extended {
                        acc.fails.push(("cyclic.chain_with_foreign_embedded_data_was_extended_to_an_accepted_link".into(), json!({"next_link_claims": name})));
                    }
                }
            }
        }
    }
    let _ = cyc.initial_hash;
    acc.sample = Some(json!({"part": "cyclic", "chain_length": chain_len, "circuit_degree_bits": cyc.common.degree_bits(), "public_inputs": n_pis, "embedded_vk_elements": n_pis - vk_start}));
    acc
}

// ---- tree-shaped cyclic recursion: one circuit verifies TWO proofs of itself ---------------------

const TREE_DEGREE_BITS: usize = 14;

struct Tree {
    data: CircuitData<F, PC, D>,
    common: CommonCircuitData<F, D>,
    vdt: VerifierCircuitTarget,
    conditions: [BoolTarget; 2],
    inner: [ProofWithPublicInputsTarget<D>; 2],
}

fn build_tree() -> Result<Tree, String> {
    catch(|| -> anyhow::Result<Tree> {
        let config = CircuitConfig::standard_recursion_config();
        // common data of "a circuit verifying two proofs of the previous shape", iterated to a fixed point
        let mut data = CircuitBuilder::<F, D>::new(config.clone()).build::<PC>();
        for _ in 0..3 {
            let mut builder = CircuitBuilder::<F, D>::new(config.clone());
            for _ in 0..2 {
                let proof = builder.add_virtual_proof_with_pis(&data.common);
                let vd = builder.add_virtual_verifier_data(data.common.config.fri_config.cap_height);
                builder.verify_proof::<PC>(&proof, &vd, &data.common);
            }
            builder.add_gate_to_gate_set(plonky2::gates::gate::GateRef::new(plonky2::gates::constant::ConstantGate::new(config.num_constants)));
            while builder.num_gates() < 1 << (TREE_DEGREE_BITS - 1) {
                builder.add_gate(NoopGate, vec![]);
            }
            data = builder.build::<PC>();
        }
        let mut common = data.common;
        let mut builder = CircuitBuilder::<F, D>::new(config);
        let one = builder.one();
        let count = builder.add_virtual_public_input();
        let vdt = builder.add_verifier_data_public_inputs();
        common.num_public_inputs = builder.num_public_inputs();
        let conditions = [builder.add_virtual_bool_target_safe(), builder.add_virtual_bool_target_safe()];
        let inner = [builder.add_virtual_proof_with_pis(&common), builder.add_virtual_proof_with_pis(&common)];
        // count = 1 + cond0 * count0 + cond1 * count1
        let acc = builder.mul_add(conditions[0].target, inner[0].public_inputs[0], one);
        let acc = builder.mul_add(conditions[1].target, inner[1].public_inputs[0], acc);
        builder.connect(count, acc);
        for i in 0..2 {
            builder.conditionally_verify_cyclic_proof_or_dummy::<PC>(conditions[i], &inner[i], &common)?;
        }
        let data = builder.build::<PC>();
        Ok(Tree { data, common, vdt, conditions, inner })
    })
    .map_err(|p| format!("{} @ {}", p.msg, norm_loc(&p.loc)))?
    .map_err(|e| e.to_string())
}

impl Tree {
    fn prove_node(&self, children: [Option<&ProofWithPublicInputs<F, PC, D>>; 2], own: &VerifierOnlyCircuitData<PC, D>, base: &ProofWithPublicInputs<F, PC, D>) -> Result<ProofWithPublicInputs<F, PC, D>, String> {
        catch(|| -> anyhow::Result<ProofWithPublicInputs<F, PC, D>> {
            let mut pw = PartialWitness::<F>::new();
            for i in 0..2 {
                pw.set_bool_target(self.conditions[i], children[i].is_some())?;
                pw.set_proof_with_pis_target::<PC, D>(&self.inner[i], children[i].unwrap_or(base))?;
            }
            pw.set_verifier_data_target(&self.vdt, own)?;
            self.data.prove(pw)
        })
        .map_err(|p| format!("panic: {}", p.msg))?
        .map_err(|e| e.to_string())
    }
    fn fully_valid(&self, p: &ProofWithPublicInputs<F, PC, D>) -> bool {
        matches!(catch(|| check_cyclic_proof_verifier_data(p, &self.data.verifier_only, &self.data.common).is_ok() && self.data.verify(p.clone()).is_ok()), Ok(true))
    }
}

/// Every slot of a tree-shaped cyclic circuit must bind the verifier data embedded in the proof it verifies.
fn case_tree(seed: u64, case: u64) -> Acc {
    let mut acc = Acc::default();
    let mut rng = crate::mon::case_rng(seed, 20_004, case);
    let tree = match build_tree() {
        Ok(t) => t,
        Err(e) => {
            acc.fails.push(("cyclic.tree.circuit_not_buildable".into(), json!({"err": e})));
            return acc;
        }
    };
    acc.c("cyclic.tree.circuits");
    acc.keys.push(format!("cyclic.tree|{case}"));
    if tree.data.common != tree.common {
        acc.fails.push(("cyclic.tree.circuit_common_data_differs_from_goal".into(), json!({})));
        return acc;
    }
    let real = tree.data.verifier_only.clone();
    let base = cyclic_base_proof(&tree.common, &real, HashMap::new());
    acc.evals += 1;
    let leaf = match tree.prove_node([None, None], &real, &base) {
        Ok(p) if tree.fully_valid(&p) && p.public_inputs[0] == F(1) => p,
        other => {
            acc.fails.push(("cyclic.tree.honest_leaf_not_accepted".into(), json!({"outcome": other.err()})));
            return acc;
        }
    };
    acc.c("cyclic.tree.links_proved");
    acc.evals += 1;
    match tree.prove_node([Some(&leaf), Some(&leaf)], &real, &base) {
        Ok(p) if tree.fully_valid(&p) && p.public_inputs[0] == F(3) => acc.c("cyclic.tree.links_proved"),
        other => acc.fails.push(("cyclic.tree.honest_node_not_accepted".into(), json!({"outcome": other.err()}))),
    }
    // a proof of the very same circuit that claims other verifier data
    let mut foreign = real.clone();
    match rng.gen_range(0..3) {
        0 => foreign.circuit_digest.elements[rng.gen_range(0..4)] += F::ONE,
        1 => {
            let n = foreign.constants_sigmas_cap.0.len();
            foreign.constants_sigmas_cap.0[rng.gen_range(0..n)].elements[rng.gen_range(0..4)] += F::ONE
        }
        _ => {
            foreign.circuit_digest.elements[0] += F::ONE;
            foreign.constants_sigmas_cap.0[0].elements[1] += F::ONE;
        }
    }
    let foreign_base = cyclic_base_proof(&tree.common, &foreign, HashMap::new());
    acc.evals += 1;
    let foreign_leaf = match tree.prove_node([None, None], &foreign, &foreign_base) {
        Ok(p) => p,
        Err(e) => {
            acc.c(&format!("cyclic.tree.foreign_leaf_not_provable: {}", msg_class(&e).chars().take(40).collect::<String>()));
            return acc;
        }
    };
    if tree.fully_valid(&foreign_leaf) {
        acc.fails.push(("cyclic.tree.check_accepts_foreign_verifier_data".into(), json!({})));
    }
    for slot in 0..2 {
        let mut children = [Some(&leaf), Some(&leaf)];
        children[slot] = Some(&foreign_leaf);
        acc.evals += 1;
        acc.c("cyclic.tree.foreign_inner_proof_presented");
        if let Ok(p) = tree.prove_node(children, &real, &base) {
            if tree.fully_valid(&p) {
                acc.fails.push((format!("cyclic.tree.accepted_inner_proof_with_foreign_verifier_data.slot{slot}"), json!({"slot": slot})));
            }
        }
    }
    acc
}

fn dispatch(seed: u64, c: u64, quick: bool) -> Acc {
    let n_cyc = if quick { 1 } else { 4 };
    if c < n_cyc {
        case_cyclic(seed, c, quick)
    } else if c == n_cyc || (!quick && c == n_cyc + 1) {
        case_tree(seed, c)
    } else if c % 2 == 0 {
        case_conditional(seed, c, quick)
    } else {
        case_dummy(seed, c, quick)
    }
}

pub fn run(tier: Tier) -> ! {
    let mut run = Run::new("C20", "exploration", tier);
    run.rule("Conditional: pairs of sibling inner circuits (same common data, different constants), one outer circuit with conditionally_verify_proof; all 32 combinations of {proof0 valid/invalid} x {proof1 valid/invalid} x condition x {verifier data own/other} per branch; expected = native verdict of the selected (proof, verifier data); circuit verdict = assignment + outer witness generation + satisfaction oracle. Dummy: dummy_circuit / dummy_proof for the common data of generated circuits with random requested public inputs: proof valid for its dummy circuit, public inputs as requested, not accepted by the mimicked circuit. Cyclic: hash-chain circuit as in the library's own test; chains of 2 (quick) / 4 links from random initial values: every link verifies, passes check_cyclic_proof_verifier_data, carries the circuit's verifier data element by element, and its hash / counter equal the reference Poseidon iteration; every single-element alteration of the embedded data and foreign digests / cap entries are rejected by the check; a base link built under foreign verifier data verifies but fails the check and cannot be extended to an accepted link. Tree: a circuit that verifies two proofs of itself (2^14 rows): honest leaf and node are accepted; a leaf claiming foreign verifier data cannot be used as inner proof in either slot.");
    run.assume("satisfaction oracle (sat.rs); reference Poseidon sponge (refmodel) for the chain history");
    let quick = run.quick();
    let seed = run.seed;
    let n_cases: u64 = run.pick(17, 120);
    let mut matrix = BTreeMap::new();
    if Run::shard_spec().is_none() {
        run.run_shards(16, 1, 3 * 3600);
        run.count("cases", n_cases);
        if run.counter("cyclic.links_proved") == 0 || run.counter("conditional.outer_circuits") == 0 || run.counter("dummy.circuits_built") == 0 {
            run.inconclusive("one of the three parts observed nothing");
        }
    } else {
        for c in 0..n_cases {
            if !Run::in_shard(c) || run.skip_case(c) {
                continue;
            }
            let a = dispatch(seed, c, quick);
            crate::props::c06::merge(&mut run, c, a, &mut matrix);
        }
        run.set_extra("matrix", json!(matrix));
    }
    run.finish()
}
