//! C11 — the in-circuit STARK verifier agrees with the native STARK verifier.
//!
//! Differential monitor as in C06. Mode A: one outer circuit per (definition, config, trace length).
//! Mode B: one outer circuit sized for a maximum length verifies proofs of every supported shorter
//! power-of-two length (prover padded through `verifier_circuit_fri_params`).

use std::collections::BTreeMap;

use plonky2::field::goldilocks_field::GoldilocksField as F;
use plonky2::fri::reduction_strategies::FriReductionStrategy;
use plonky2::fri::{FriConfig, FriParams};
use plonky2::iop::target::Target;
use plonky2::iop::witness::PartialWitness;
use plonky2::plonk::circuit_builder::CircuitBuilder;
use plonky2::plonk::circuit_data::{CircuitConfig, CircuitData};
use plonky2::plonk::prover::prove_with_partition_witness;
use plonky2::util::timing::TimingTree;
use rand::Rng;
use rand_chacha::ChaCha8Rng;
use serde_json::{json, Value};
use starky::config::StarkConfig;
use starky::proof::{StarkProofWithPublicInputs, StarkProofWithPublicInputsTarget};
use starky::prover::prove;
use starky::recursive_verifier::{add_virtual_stark_proof_with_pis, set_stark_proof_with_pis_target, verify_stark_proof_circuit};
use starky::verif_hooks::{set_knobs, StarkProverKnobs};
use starky::verifier::verify_stark_proof;

use crate::mon::{catch, msg_class, norm_loc, Run, Tier};
use crate::props::c06::{judge_assignment, Acc, CircuitVerdict, PC};
use crate::sat::SatCtx;
use crate::stk::{self, GenStark, Generated, D, P};
use crate::tamper::{self, ListOp};

struct Outer {
    data: CircuitData<F, PC, D>,
    pt: StarkProofWithPublicInputsTarget<D>,
    zero: Target,
    ctx: SatCtx,
}

fn build_outer<const COLS: usize, const PIS: usize>(stark: &GenStark<COLS, PIS>, config: &StarkConfig, degree_bits: usize, min_degree_bits: Option<usize>) -> Result<Outer, String> {
    let st = stark.clone();
    let cfg = config.clone();
    catch(move || {
        let mut b = CircuitBuilder::<F, D>::new(CircuitConfig::standard_recursion_config());
        let zero = b.zero();
        let pt = add_virtual_stark_proof_with_pis(&mut b, &st, &cfg, degree_bits, 0, 0);
        verify_stark_proof_circuit::<F, PC, GenStark<COLS, PIS>, D>(&mut b, st, pt.clone(), &cfg, min_degree_bits);
        b.register_public_inputs(&pt.public_inputs);
        let data = b.build::<PC>();
        (data, pt, zero)
    })
    .map_err(|p| format!("{} @ {}", p.msg, norm_loc(&p.loc)))
    .and_then(|(data, pt, zero)| {
        let ctx = SatCtx::new(&data.prover_only, &data.common)?;
        Ok(Outer { data, pt, zero, ctx })
    })
}

fn circuit_verdict<'a>(outer: &'a Outer, p: &StarkProofWithPublicInputs<F, PC, D>, degree_bits: usize) -> CircuitVerdict<'a> {
    let assigned = catch(|| -> anyhow::Result<PartialWitness<F>> {
        let mut pw = PartialWitness::<F>::new();
        set_stark_proof_with_pis_target(&mut pw, &outer.pt, p, degree_bits, outer.zero)?;
        Ok(pw)
    });
    judge_assignment(&outer.data, &outer.ctx, assigned)
}

fn native<const COLS: usize, const PIS: usize>(stark: &GenStark<COLS, PIS>, config: &StarkConfig, p: &StarkProofWithPublicInputs<F, PC, D>, vparams: Option<FriParams>) -> Result<(), String> {
    match catch(|| verify_stark_proof::<F, PC, GenStark<COLS, PIS>, D>(stark.clone(), p.clone(), config, vparams)) {
        Ok(Ok(())) => Ok(()),
        Ok(Err(e)) => Err(format!("Err({})", msg_class(e.to_string().lines().next().unwrap_or("")).chars().take(60).collect::<String>())),
        Err(pn) => Err(format!("panic@{}", norm_loc(&pn.loc))),
    }
}

struct Cmp<'a> {
    acc: &'a mut Acc,
    desc: &'a Value,
    case: u64,
}
impl Cmp<'_> {
    fn check<const COLS: usize, const PIS: usize>(&mut self, class: &str, stark: &GenStark<COLS, PIS>, config: &StarkConfig, vparams: Option<FriParams>, outer: &Outer, p: &StarkProofWithPublicInputs<F, PC, D>, degree_bits: usize) -> bool {
        let n = native(stark, config, p, vparams);
        let c = circuit_verdict(outer, p, degree_bits);
        self.acc.evals += 1;
        self.acc.keys.push(class.to_string());
        let c_acc = matches!(c, CircuitVerdict::Accepted(_));
        let label = format!("{class} | native {} | circuit {}", match &n { Ok(()) => "ACCEPTS".to_string(), Err(e) => format!("rejects: {e}") }, match &c { CircuitVerdict::Accepted(_) => "ACCEPTS".to_string(), CircuitVerdict::Rejected(e) => format!("rejects: {e}") });
        *self.acc.matrix.entry(label.clone()).or_insert(0) += 1;
        if n.is_ok() != c_acc {
            let sig = if n.is_ok() { format!("stark_recursion.circuit_rejects_what_native_accepts.{class}") } else { format!("stark_recursion.circuit_accepts_what_native_rejects.{class}") };
            self.acc.fails.push((sig, json!({"case": self.case, "stark": self.desc, "verdicts": label})));
        }
        n.is_ok()
    }
}

fn other_value(rng: &mut ChaCha8Rng, v: u64) -> u64 {
    let nv = if rng.gen_bool(0.5) { (v + 1) % P } else { rng.gen_range(0..P) };
    if nv == v {
        (v + 1) % P
    } else {
        nv
    }
}

/// Configurations for which one circuit can serve several lengths: the schedule of the maximum length
/// must stop on the cap condition with exactly `2^(final_poly_bits+1)` coefficients left.
fn multi_degree_config(rng: &mut ChaCha8Rng) -> (StarkConfig, usize) {
    let (a, fb, rate, cap) = [(1usize, 1usize, 1usize, 3usize), (2, 2, 1, 3), (2, 2, 1, 4), (1, 2, 2, 5), (2, 1, 2, 3)][rng.gen_range(0..5)];
    let q = rng.gen_range(3..7);
    let cfg = StarkConfig { security_bits: q * rate, num_challenges: rng.gen_range(1..=2), fri_config: FriConfig { rate_bits: rate, cap_height: cap, proof_of_work_bits: rng.gen_range(0..5), reduction_strategy: FriReductionStrategy::ConstantArityBits(a, fb), num_query_rounds: q } };
    // maximum length: fb + 1 + k*a
    let vdb = fb + 1 + a * rng.gen_range(2..=4);
    (cfg, vdb)
}

fn case<const COLS: usize, const PIS: usize>(seed: u64, case: u64, quick: bool, lookups: bool) -> Acc {
    let mut acc = Acc::default();
    let mut rng = crate::mon::case_rng(seed, 11_001, case);
    let degree = if lookups { 3 } else { [1usize, 2, 3][rng.gen_range(0..3)] };
    let multi = case % 2 == 1;
    set_knobs(StarkProverKnobs::default());
    let (config, vdb, min_bits) = if multi {
        let (c, v) = multi_degree_config(&mut rng);
        let floor = c_cap_floor(&c);
        (c, v, Some(rng.gen_range(2..=3usize).max(floor)))
    } else {
        let mut c = stk::gen_stark_config(&mut rng, degree, true);
        c.fri_config.num_query_rounds = c.fri_config.num_query_rounds.min(6);
        (c, rng.gen_range(3..=if quick { 6 } else { 8 }), None)
    };
    // one definition for all lengths: the family's spec does not depend on the length except for the
    // cyclic counter, which is only used with degree >= 2 and >= 5 columns; regenerate per length
    let gen_for = |rng: &mut ChaCha8Rng, log_n: usize, spec_seed: u64| -> Generated {
        let mut r2 = crate::mon::case_rng(spec_seed, 11_002, 0);
        let g = if lookups { stk::gen_lookup_family(&mut r2, COLS, PIS, degree, log_n) } else { stk::gen_family(&mut r2, COLS, PIS, degree, log_n) };
        let _ = rng;
        g
    };
    // the definition must not depend on the length in multi-degree mode: use small column counts
    // (no cyclic counter) there; `gen_family` adds the counter only as the third extra column
    let spec_seed = seed ^ (case << 8);
    let top = gen_for(&mut rng, vdb, spec_seed);
    let stark = GenStark::<COLS, PIS>::new(top.spec.clone());
    let desc = json!({"stark": top.spec.describe(), "config": stk::describe_stark_config(&config), "circuit_degree_bits": vdb, "mode": if multi { "one circuit, several lengths" } else { "fixed length" }, "min_degree_bits": min_bits});
    acc.keys.push(format!("{desc}"));
    let vparams = if multi { Some(config.fri_params(vdb)) } else { None };
    let outer = match build_outer(&stark, &config, vdb, min_bits) {
        Ok(o) => o,
        Err(e) => {
            acc.c(&format!("outer_not_built: {}", msg_class(&e).chars().take(70).collect::<String>()));
            return acc;
        }
    };
    acc.c("outer_circuits");
    acc.c(if multi { "mode.multi_degree" } else { "mode.fixed" });
    // supported lengths: those whose own final polynomial fits the circuit's (the documented limitation of
    // the several-lengths mode); the others are refused by the assignment routine and are outside the property
    let max_final = config.fri_params(vdb).final_poly_len();
    let lengths: Vec<usize> = if multi {
        (min_bits.unwrap()..=vdb)
            .filter(|l| match catch(|| config.fri_params(*l).final_poly_len()) {
                Ok(len) => len <= max_final,
                Err(_) => false,
            })
            .collect()
    } else {
        vec![vdb]
    };
    acc.counters.insert("multi_length.lengths_served".into(), acc.counters.get("multi_length.lengths_served").copied().unwrap_or(0) + if multi { lengths.len() as u64 } else { 0 });
    let mut accepted: Option<(StarkProofWithPublicInputs<F, PC, D>, usize)> = None;
    for &log_n in lengths.iter() {
        let g = if log_n == vdb { Generated { spec: top.spec.clone(), trace: top.trace.clone(), pis: top.pis.clone() } } else { gen_for(&mut rng, log_n, spec_seed) };
        // the definitions generated for other lengths must be the same definition
        let fingerprint = |sp: &stk::Spec| format!("{:?}|{:?}", sp.cons.iter().map(|c| format!("{:?}:{:?}", c.kind, c.poly.iter().map(|m| (m.c, m.f.clone())).collect::<Vec<_>>())).collect::<Vec<_>>(), sp.lookups);
        if fingerprint(&g.spec) != fingerprint(&top.spec) {
            acc.c("length_dependent_definition_skipped");
            continue;
        }
        let pv = stk::to_poly_values(&g.trace);
        let pif: Vec<F> = g.pis.iter().map(|x| F(*x)).collect();
        let proof = match catch(|| prove::<F, PC, GenStark<COLS, PIS>, D>(stark.clone(), &config, pv, &pif, vparams.clone(), &mut TimingTree::default())) {
            Ok(Ok(p)) => p,
            Ok(Err(e)) => {
                acc.c(&format!("inner_not_proved: {}", msg_class(&e.to_string()).chars().take(60).collect::<String>()));
                continue;
            }
            Err(p) => {
                acc.c(&format!("inner_not_proved: {}", msg_class(&p.msg).chars().take(60).collect::<String>()));
                continue;
            }
        };
        acc.c(&format!("inner_proofs.log_n_{log_n}"));
        let mut cmp = Cmp { acc: &mut acc, desc: &desc, case };
        if !cmp.check(&format!("honest(length 2^{})", if log_n == vdb { "max".to_string() } else { "shorter".to_string() }), &stark, &config, vparams.clone(), &outer, &proof, log_n) {
            continue;
        }
        if accepted.is_none() {
            accepted = Some((proof.clone(), log_n));
        }
        // tamper sample
        let slots = tamper::count_stark_slots::<PC>(&proof);
        let stride = (slots / if quick { 25 } else { 200 }).max(1);
        let mut k = rng.gen_range(0..stride);
        while k < slots {
            let (q, class) = tamper::tamper_stark_at::<PC>(&proof, k, (k % 5) as u8, rng.gen());
            cmp.check(&format!("tamper.{class}"), &stark, &config, vparams.clone(), &outer, &q, log_n);
            k += stride;
        }
        // wrong public inputs
        for i in 0..PIS.min(2) {
            let mut q = proof.clone();
            q.public_inputs[i] = F(other_value(&mut rng, g.pis[i]));
            cmp.check("public_input_edited", &stark, &config, vparams.clone(), &outer, &q, log_n);
        }
        // structural edits of the FRI part
        for site in tamper::fri_list_sites::<<PC as plonky2::plonk::config::GenericConfig<D>>::Hasher>(&proof.proof.opening_proof, 1) {
            for op in [ListOp::DropLast, ListOp::DupLast] {
                let mut q = proof.clone();
                if !tamper::apply_fri_list_op::<<PC as plonky2::plonk::config::GenericConfig<D>>::Hasher>(&mut q.proof.opening_proof, &site, op) {
                    continue;
                }
                let sname = format!("{site:?}").replace(|c: char| c.is_ascii_digit() || c == '(' || c == ')' || c == ',' || c == ' ', "");
                cmp.check(&format!("list.{sname}.{op:?}"), &stark, &config, vparams.clone(), &outer, &q, log_n);
            }
        }
        // a false statement proved by the hooked prover
        {
            let mut t2 = g.trace.clone();
            let (c, r) = (rng.gen_range(0..COLS), rng.gen_range(0..t2[0].len()));
            t2[c][r] = other_value(&mut rng, t2[c][r]);
            if !g.spec.check_trace(&t2, &g.pis).is_empty() || !g.spec.check_lookups(&t2).is_empty() {
                set_knobs(StarkProverKnobs { skip_constraint_check: true, lenient_truncation: true, ..Default::default() });
                let res = catch(|| prove::<F, PC, GenStark<COLS, PIS>, D>(stark.clone(), &config, stk::to_poly_values(&t2), &pif, vparams.clone(), &mut TimingTree::default()));
                set_knobs(StarkProverKnobs::default());
                if let Ok(Ok(q)) = res {
                    cmp.check("false_statement(trace cell altered)", &stark, &config, vparams.clone(), &outer, &q, log_n);
                }
            }
        }
        // the length claimed to the assignment routine differs from the proof's length: nothing valid is
        // being claimed, the circuit must not accept
        if multi {
            for wrong in [log_n + 1, log_n.saturating_sub(1)] {
                if wrong == log_n || wrong > vdb || wrong < min_bits.unwrap() {
                    continue;
                }
                let c = circuit_verdict(&outer, &proof, wrong);
                cmp.acc.evals += 1;
                let lab = format!("claimed_length_differs_from_proof_length | circuit {}", match &c { CircuitVerdict::Accepted(_) => "ACCEPTS".to_string(), CircuitVerdict::Rejected(e) => format!("rejects: {e}") });
                *cmp.acc.matrix.entry(lab).or_insert(0) += 1;
                if matches!(c, CircuitVerdict::Accepted(_)) {
                    cmp.acc.fails.push(("stark_recursion.circuit_accepts_proof_under_a_wrong_length_claim".into(), json!({"case": case, "stark": desc, "proof_log_n": log_n, "claimed": wrong})));
                }
            }
        }
    }
    // full outer proof for one accepted candidate
    if let Some((p, log_n)) = accepted {
        if case % if quick { 3 } else { 1 } == 0 {
            if let CircuitVerdict::Accepted(w) = circuit_verdict(&outer, &p, log_n) {
                acc.evals += 1;
                match catch(|| prove_with_partition_witness(&outer.data.prover_only, &outer.data.common, w, &mut TimingTree::default())) {
                    Ok(Ok(op)) => {
                        acc.c("full_outer_proofs");
                        if op.public_inputs != p.public_inputs {
                            acc.fails.push(("stark_recursion.outer_proof_does_not_reexpose_public_inputs".into(), json!({"stark": desc})));
                        }
                        if !matches!(catch(|| outer.data.verify(op)), Ok(Ok(()))) {
                            acc.fails.push(("stark_recursion.outer_proof_for_valid_inner_not_accepted".into(), json!({"stark": desc})));
                        }
                    }
                    _ => acc.fails.push(("stark_recursion.outer_proving_failed_for_valid_inner".into(), json!({"stark": desc}))),
                }
            }
        }
    }
    if case % 6 == 0 {
        acc.sample = Some(json!({"stark": desc, "outer_degree_bits": outer.data.common.degree_bits(), "lengths": lengths}));
    }
    acc
}

fn c_cap_floor(c: &StarkConfig) -> usize {
    // shortest supported length
    // the in-circuit verifier needs min_degree_bits + rate_bits > cap_height
    (c.fri_config.cap_height + 1).saturating_sub(c.fri_config.rate_bits).max(2)
}

fn dispatch(seed: u64, c: u64, quick: bool) -> Acc {
    match c % 4 {
        0 => case::<3, 2>(seed, c, quick, false),
        1 => case::<4, 3>(seed, c, quick, false),
        2 => case::<6, 0>(seed, c, quick, true),
        _ => case::<2, 1>(seed, c, quick, false),
    }
}

pub fn run(tier: Tier) -> ! {
    let mut run = Run::new("C11", "exploration", tier);
    run.rule("STARK definitions from the data-driven family (2-6 columns, with and without lookups, constraint degree 1-3) x StarkConfigs; even cases: one outer circuit per (definition, config, length 2^3..2^8); odd cases: one outer circuit sized for a maximum length (ConstantArityBits schedules that stop on the cap condition) verifying proofs of every supported shorter power-of-two length, produced with the prover's verifier_circuit_fri_params padding. Candidates per proof: honest, stride sample over every proof element, edited public inputs, FRI list edits, a false statement proved by the hooked prover, and (multi-length mode) the assignment routine told a wrong length. native verdict (verify_stark_proof) must equal circuit verdict (set_stark_proof_with_pis_target + outer witness generation + satisfaction oracle); a wrong length claim must never be accepted; sampled full outer proofs.");
    run.assume("satisfaction oracle (sat.rs) decides whether the generated outer witness satisfies the outer circuit");
    run.assume("proofs of lengths below min_degree_bits_to_support are outside the property and not generated");
    let quick = run.quick();
    let seed = run.seed;
    let n_cases: u64 = run.pick(48, 480);
    let mut matrix = BTreeMap::new();
    if Run::shard_spec().is_none() {
        run.run_shards(16, 1, 3 * 3600);
        if !Run::is_sub() {
            run.run_variants();
        }
        run.count("cases", n_cases);
        if run.counter("outer_circuits") == 0 {
            run.inconclusive("no outer circuit could be built");
        }
    } else {
        for c in 0..n_cases {
            if !Run::in_shard(c) || run.skip_case(c) {
                continue;
            }
            let a = dispatch(seed, c, quick);
            crate::props::c06::merge(&mut run, c, a, &mut matrix);
        }
        run.set_extra("matrix_class_native_circuit", json!(matrix));
    }
    run.finish()
}
