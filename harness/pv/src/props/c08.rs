//! C08 — table lookups are provable exactly for pairs contained in the table.
//!
//! Positive: designed lookup workloads (table sizes around the slot counts, partially filled lookup
//! rows, exact multiples, heavy repetition, unused entries, several tables) prove, verify and output
//! the table's value. Negative (prover knobs H3, one case at a time per process): looked-up output
//! changed consistently in its whole copy class (only the lookup argument stands in the way), pair
//! of a different table, free looked-up input outside the table, multiplicity +-1, padded slot
//! changed, table row changed. Oracle: row / copy / lookup satisfaction oracle (sat.rs).

use std::collections::BTreeMap;

use plonky2::field::goldilocks_field::GoldilocksField as F;
use plonky2::field::types::PrimeField64;
use plonky2::iop::witness::PartitionWitness;
use plonky2::plonk::circuit_data::CircuitConfig;
use plonky2::plonk::config::{GenericConfig, KeccakGoldilocksConfig, PoseidonGoldilocksConfig};
use plonky2::verif_hooks::{set_knobs, ProverKnobs};
use rand::Rng;
use rand_chacha::ChaCha8Rng;
use serde_json::{json, Value};

use crate::circ::{self, Op, Program, D};
use crate::mon::{catch, msg_class, Run, Tier};
use crate::props::c02::{honest_witness, prove_and_verify, record, Acc, Outcome, Subject};
use crate::sat::{self, SatCtx, SatReport};

const P: u64 = 0xFFFF_FFFF_0000_0001;

/// Designed lookup program: tables + a multiset of lookups per table. Lookup inputs are constants
/// (or, for `free_inputs`, program inputs that feed nothing but the lookup); every output is public.
fn gen_lookup_program(rng: &mut ChaCha8Rng, lu_slots: usize, lut_slots: usize) -> (Program, Vec<u64>, Value) {
    let n_tables = rng.gen_range(1..=4usize);
    let mut tables: Vec<Vec<(u16, u16)>> = vec![];
    let mut ops: Vec<Op> = vec![];
    let mut inputs: Vec<u64> = vec![];
    let mut n_inputs = 0usize;
    let mut shapes = vec![];
    // a shared pool of inputs so that different tables map the same input to different outputs
    let pool: Vec<u16> = {
        let mut v: Vec<u16> = vec![];
        while v.len() < 3 * lut_slots + 7 {
            let x: u16 = match rng.gen_range(0..4) {
                0 => rng.gen_range(0..8),
                1 => u16::MAX - rng.gen_range(0..8),
                _ => rng.gen(),
            };
            if !v.contains(&x) {
                v.push(x);
            }
        }
        v
    };
    let mut reg = 0usize;
    for t in 0..n_tables {
        let len = match rng.gen_range(0..8) {
            0 => 1,
            1 => lut_slots - 1,
            2 => lut_slots,
            3 => lut_slots + 1,
            4 => 2 * lut_slots,
            5 => 2 * lut_slots + rng.gen_range(1..lut_slots),
            6 => rng.gen_range(2..lut_slots),
            _ => 3 * lut_slots,
        }
        .min(pool.len());
        let outs_few = rng.gen_bool(0.5);
        let mut table: Vec<(u16, u16)> = pool.iter().take(len).map(|&i| (i, if outs_few { rng.gen_range(0..3) + (t as u16) * 7 } else { rng.gen() })).collect();
        // nested tables: a proper prefix of an earlier table, or an earlier table followed by more
        // entries (the two declaration orders of "one table is the beginning of another")
        let mut past_prefix: Option<usize> = None;
        if t >= 1 && rng.gen_range(0..3) == 0 {
            let t0 = rng.gen_range(0..t);
            let base = tables[t0].clone();
            if rng.gen_bool(0.5) && base.len() >= 2 {
                table = base[..rng.gen_range(1..base.len())].to_vec();
            } else if base.len() < pool.len() {
                let extra = rng.gen_range(1..=(pool.len() - base.len()).min(lut_slots + 2));
                table = base.clone();
                for &i in pool.iter().skip(base.len()).take(extra) {
                    table.push((i, rng.gen()));
                }
                past_prefix = Some(base.len());
            }
        }
        // (a nested table that coincides with a table declared earlier would be de-duplicated by the
        // builder, which is legitimate but leaves this table without rows of its own: keep them distinct)
        if tables.iter().any(|x| *x == table) {
            let keep = table.len();
            table = pool.iter().take(keep).map(|&i| (i, rng.gen())).collect();
            past_prefix = None;
        }
        let len = table.len();
        let n_lookups = match rng.gen_range(0..7) {
            0 => 1,
            1 => lu_slots - 1,
            2 => lu_slots,
            3 => lu_slots + 1,
            4 => 2 * lu_slots,
            5 => rng.gen_range(2..lu_slots),
            _ => lu_slots + rng.gen_range(1..lu_slots),
        };
        let style = rng.gen_range(0..3);
        let free = rng.gen_bool(0.4);
        for k in 0..n_lookups {
            let (inp, _) = match style {
                _ if k == 0 && past_prefix.is_some() => table[past_prefix.unwrap() + rng.gen_range(0..table.len() - past_prefix.unwrap())],
                0 => table[0],                        // heavy repetition of one entry
                1 => table[k % table.len().min(3)],    // a few entries, the rest unused
                _ => table[rng.gen_range(0..table.len())],
            };
            if free && k % 3 == 0 {
                ops.push(Op::Input);
                inputs.push(inp as u64);
                n_inputs += 1;
            } else {
                ops.push(Op::Const(inp as u64));
            }
            reg += 1;
            ops.push(Op::Lookup(reg - 1, t));
            reg += 1;
            ops.push(Op::Public(reg - 1));
        }
        shapes.push(json!({"table_len": len, "lookups": n_lookups, "style": style, "free_inputs": free, "extends_an_earlier_table": past_prefix.is_some()}));
        tables.push(table);
    }
    (Program { ops, tables, n_inputs }, inputs, json!({"tables": shapes, "lu_slots_per_row": lu_slots, "lut_slots_per_row": lut_slots}))
}

fn lookup_config(rng: &mut ChaCha8Rng) -> CircuitConfig {
    let mut c = circ::fast_config();
    match rng.gen_range(0..5) {
        0 => {
            c.num_routed_wires = 60;
        }
        1 => {
            c.num_routed_wires = 100;
            c.num_wires = 140;
        }
        2 => c.zero_knowledge = true,
        3 => {
            c.num_challenges = 3;
            c.fri_config.cap_height = 1;
        }
        _ => {}
    }
    c
}

fn judge_edits<C: GenericConfig<D, F = F>>(s: &Subject<C>, pw: &PartitionWitness<F>, edits: &[(usize, usize, u64)]) -> Result<SatReport, String> {
    let (mut cols, pis) = sat::prover_view(&s.built.data, pw)?;
    for &(row, col, v) in edits {
        cols[col][row] = F(v);
    }
    Ok(s.ctx.check(&s.built.data.prover_only, &s.built.data.common, &cols, &pis))
}

fn other(rng: &mut ChaCha8Rng, v: u64) -> u64 {
    let nv = match rng.gen_range(0..3) {
        0 => (v + 1) % P,
        1 => rng.gen_range(0..1u64 << 16),
        _ => rng.gen_range(0..P),
    };
    if nv == v {
        (v + 1) % P
    } else {
        nv
    }
}

pub fn case<C: GenericConfig<D, F = F>>(seed: u64, case: u64, quick: bool, hname: &str) -> Acc {
    let mut acc = Acc::default();
    let mut rng = crate::mon::case_rng(seed, 8_001, case);
    let config = lookup_config(&mut rng);
    let lu_slots = config.num_routed_wires / 2;
    let lut_slots = config.num_routed_wires / 3;
    let (prog, inputs, shape) = gen_lookup_program(&mut rng, lu_slots, lut_slots);
    let built = match catch(|| circ::build::<C>(&prog, &config)) {
        Ok(b) => b,
        Err(p) => {
            acc.evals += 1;
            acc.fails.push((format!("lookup.builder_panicked_on_admissible_lookup_circuit: {}", msg_class(&p.msg).chars().take(70).collect::<String>()), json!({"case": case, "shape": shape, "config": circ::describe_config(&config), "panic": p.msg})));
            return acc;
        }
    };
    let ctx = match SatCtx::new(&built.data.prover_only, &built.data.common) {
        Ok(c) => c,
        Err(e) => {
            acc.inconclusive.push(format!("oracle cannot identify gates: {e}"));
            return acc;
        }
    };
    let desc = json!({"hasher": hname, "shape": shape, "config": circ::describe_config(&config), "degree_bits": built.data.common.degree_bits()});
    let s = Subject { prog, inputs, config, built, ctx, desc };
    acc.keys.push(format!("{}", s.desc));
    set_knobs(ProverKnobs::default());
    // ---- positive ----------------------------------------------------------------------------
    let want = match s.prog.eval(&s.inputs) {
        Ok(e) => e,
        Err(u) => {
            acc.inconclusive.push(format!("harness: designed lookup program rejected by the interpreter: {}", u.why));
            return acc;
        }
    };
    let honest = match honest_witness(&s, &s.inputs) {
        Ok(w) => w,
        Err(e) => {
            acc.evals += 1;
            acc.fails.push((format!("lookup.witness_generation_failed_for_pairs_in_table: {}", msg_class(&e).chars().take(60).collect::<String>()), json!({"case": case, "circuit": s.desc})));
            return acc;
        }
    };
    let (out, proof) = prove_and_verify(&s.built, honest.clone());
    acc.evals += 1;
    acc.c("lookup_positive_circuits");
    acc.c(&format!("tables_per_circuit.{}", s.prog.tables.len()));
    match (&out, proof) {
        (Outcome::Accepted, Some(p)) => {
            let pis: Vec<u64> = p.public_inputs.iter().map(|x| x.to_canonical_u64()).collect();
            if pis != want.publics {
                acc.fails.push(("lookup.output_differs_from_table_value".into(), json!({"case": case, "circuit": s.desc})));
            }
        }
        _ => {
            acc.fails.push((format!("lookup.not_provable_although_all_pairs_in_table: {}", out.label()), json!({"case": case, "circuit": s.desc})));
            return acc;
        }
    }
    match judge_edits(&s, &honest, &[]) {
        Ok(r) if r.satisfied() => {}
        other => {
            acc.inconclusive.push(format!("satisfaction oracle rejects an honest lookup witness: {:?}", other.map(|r| r.summary())));
            return acc;
        }
    }
    // ---- negatives -----------------------------------------------------------------------------
    let nw = honest.num_wires;
    let deg = honest.degree;
    let ev = want;
    let lookup_ops: Vec<(usize, usize, usize)> = s.prog.ops.iter().enumerate().filter_map(|(i, op)| if let Op::Lookup(a, t) = op { Some((i, *a, *t)) } else { None }).collect();
    let reps = if quick { 2 } else { 5 };
    let lenient = ProverKnobs { lenient_truncation: true, ..Default::default() };
    for _ in 0..reps {
        // (a) looked-up output changed consistently in its whole copy class
        let (opi, _inreg, t) = lookup_ops[rng.gen_range(0..lookup_ops.len())];
        let r = ev.op_first_reg[opi];
        let rep = honest.representative_map[s.built.reg_targets[r].index(nw, deg)];
        let v = honest.values[rep].map(|x| x.to_canonical_u64()).unwrap_or(0);
        let mut w = honest.clone();
        w.values[rep] = Some(F(other(&mut rng, v)));
        if let Ok(rp) = judge_edits(&s, &w, &[]) {
            let violating = !rp.satisfied();
            set_knobs(lenient.clone());
            let (out, _) = prove_and_verify(&s.built, w);
            record(&mut acc, &s, "class_corruption", if violating { "lookup_output_not_the_table_value" } else { "lookup_output_changed:benign" }, violating, &out, case, json!({"table": t, "first_violation": rp.summary()}));
        }
        // (c) pair of a different table (same input, the other table's output)
        if s.prog.tables.len() >= 2 {
            let inp = ev.regs[_inreg];
            let t2 = (t + 1 + rng.gen_range(0..s.prog.tables.len() - 1)) % s.prog.tables.len();
            if let Some((_, o2)) = s.prog.tables[t2].iter().find(|(i, _)| *i as u64 == inp) {
                if *o2 as u64 != v {
                    let mut w = honest.clone();
                    w.values[rep] = Some(F(*o2 as u64));
                    if let Ok(rp) = judge_edits(&s, &w, &[]) {
                        let violating = !rp.satisfied();
                        set_knobs(lenient.clone());
                        let (out, _) = prove_and_verify(&s.built, w);
                        record(&mut acc, &s, "class_corruption", if violating { "pair_of_a_different_table" } else { "pair_of_a_different_table:benign(also in designated table)" }, violating, &out, case, json!({"designated_table": t, "other_table": t2}));
                    }
                }
            }
        }
        // knob edits on the final wire matrix
        let lw = s.built.data.prover_only.lookup_rows[t].clone();
        let lu_rows: Vec<usize> = (lw.last_lu_gate..lw.last_lut_gate).collect();
        let lut_rows: Vec<usize> = (lw.last_lut_gate..=lw.first_lut_gate).collect();
        let (cols0, _) = sat::prover_view(&s.built.data, &honest).unwrap();
        let mut edits: Vec<(&str, (usize, usize, u64))> = vec![];
        {
            // (b) a looking input cell (free inputs are alone in their copy class)
            let row = lu_rows[rng.gen_range(0..lu_rows.len())];
            let slot = rng.gen_range(0..lu_slots);
            edits.push(("looking_input_cell_changed", (row, 2 * slot, other(&mut rng, cols0[2 * slot][row].to_canonical_u64()))));
            // (e) a looking output cell (covers padded slots, which are not copy-constrained)
            let slot = lu_slots - 1 - rng.gen_range(0..lu_slots.min(3));
            let row = lw.last_lut_gate - 1;
            edits.push(("last_lookup_row_output_cell_changed(padded slots live here)", (row, 2 * slot + 1, other(&mut rng, cols0[2 * slot + 1][row].to_canonical_u64()))));
            // (d) multiplicity +- 1
            let row = lut_rows[rng.gen_range(0..lut_rows.len())];
            let slot = rng.gen_range(0..lut_slots);
            let m = cols0[3 * slot + 2][row].to_canonical_u64();
            edits.push(("multiplicity_off_by_one", (row, 3 * slot + 2, if rng.gen_bool(0.5) { (m + 1) % P } else { (m + P - 1) % P })));
            // (f) table row cell changed
            let row = lut_rows[rng.gen_range(0..lut_rows.len())];
            let slot = rng.gen_range(0..lut_slots);
            let which = rng.gen_range(0..2);
            edits.push(("table_row_cell_changed", (row, 3 * slot + which, other(&mut rng, cols0[3 * slot + which][row].to_canonical_u64()))));
        }
        for (name, e) in edits {
            let rp = match judge_edits(&s, &honest, &[e]) {
                Ok(r) => r,
                Err(_) => continue,
            };
            let violating = !rp.satisfied();
            set_knobs(ProverKnobs { witness_edits: vec![e], lenient_truncation: true, ..Default::default() });
            let (out, _) = prove_and_verify(&s.built, honest.clone());
            let site = if violating { format!("{name}:{}", rp.class()) } else { format!("{name}:benign") };
            record(&mut acc, &s, "wire_matrix_edit", &site, violating, &out, case, json!({"edit": e, "table": t, "first_violation": rp.summary()}));
        }
        set_knobs(ProverKnobs::default());
    }
    // (g) free looked-up input outside the table, through the public prove()
    if s.prog.n_inputs > 0 {
        let mut alt = s.inputs.clone();
        let k = rng.gen_range(0..alt.len());
        alt[k] = rng.gen_range(0..P);
        if s.prog.eval(&alt).is_err() {
            let pw = circ::witness_for(&s.built, &alt);
            let out = match catch(|| s.built.data.prove(pw)) {
                Ok(Ok(p)) => match catch(|| s.built.data.verify(p)) {
                    Ok(Ok(())) => Outcome::Accepted,
                    Ok(Err(e)) => Outcome::Rejected(e.to_string()),
                    Err(p) => Outcome::VerifierPanic(p.msg),
                },
                Ok(Err(e)) => Outcome::ProverErr(e.to_string()),
                Err(p) => Outcome::ProverPanic(p.msg),
            };
            record(&mut acc, &s, "public_prove", "looked_up_input_not_in_table", true, &out, case, json!({"input": k}));
        }
    }
    if case % 12 == 0 {
        acc.sample = Some(json!({"circuit": s.desc, "lookups": lookup_ops.len()}));
    }
    acc
}

pub fn run(tier: Tier) -> ! {
    let mut run = Run::new("C08", "fault_enumeration", tier);
    run.rule("circuits with 1-4 lookup tables (inputs pairwise distinct within a table; tables share inputs but map them to different outputs; every third extra table is a proper prefix or an extension of an earlier table; sizes 1, slots-1, slots, slots+1, 2*slots, 3*slots and in between; outputs with duplicates) and designed lookup multisets (1, slots-1, slots, slots+1, 2*slots lookups; one entry repeated, a few entries with the rest unused, uniform), constant and free inputs, 60/80/100 routed wires, zk, 3 challenges; Poseidon and Keccak. Positive: prove+verify accept and every lookup output equals the table value. Negative through the real prover (hook H3): looked-up output changed in its whole copy class, the same input's output in a different table, looking input/output cells changed in the final wire matrix (incl. padded slots), multiplicity +-1, table row cell changed, free input outside the table through prove(). Oracle: sat.rs lookup predicate (table rows equal the declared padded table; multiset of looking pairs equals multiplicities) + gates + copy classes; benign edits must still verify.");
    run.assume("tables with a repeated input are outside the property (the table's value for that input is not defined) and are not generated");
    run.assume("satisfaction oracle (sat.rs) classifies edited wire matrices");
    let quick = run.quick();
    let seed = run.seed;
    let n_cases: u64 = run.pick(96, 2400);
    let mut matrix = BTreeMap::new();
    if Run::shard_spec().is_none() {
        run.run_shards(16, 1, 3 * 3600);
        run.count("cases", n_cases);
        if run.counter("lookup_positive_circuits") == 0 {
            run.inconclusive("no positive lookup circuit was proved");
        }
    } else {
        for c in 0..n_cases {
            if !Run::in_shard(c) || run.skip_case(c) {
                continue;
            }
            let acc = if c % 5 == 4 { case::<KeccakGoldilocksConfig>(seed, c, quick, "keccak") } else { case::<PoseidonGoldilocksConfig>(seed, c, quick, "poseidon") };
            crate::props::c02::merge(&mut run, c, acc, &mut matrix);
        }
        run.set_extra("matrix_strategy_site_outcome", json!(matrix));
    }
    run.count("rejected_proofs_also_presented_to_verifier_data_and_compressed_paths", crate::props::c02::ALT_PATH_CHECKS.load(std::sync::atomic::Ordering::Relaxed));
    run.count("accepted_only_by_an_alternative_path", crate::props::c02::ALT_PATH_ACCEPTS.load(std::sync::atomic::Ordering::Relaxed));
    run.finish()
}
