//! C04 — Fiat-Shamir challenges depend on the whole statement and prior transcript.
//! Dependency monitor: perturb one transcript component, recompute the challenges through the
//! public `get_challenges`, compare with the schedule matrix (must change / must not change).

use plonky2::field::extension::quadratic::QuadraticExtension;
use plonky2::field::goldilocks_field::GoldilocksField as F;
use plonky2::field::types::PrimeField64;
use plonky2::plonk::circuit_data::CommonCircuitData;
use plonky2::plonk::config::{GenericConfig, Hasher, KeccakGoldilocksConfig, PoseidonGoldilocksConfig};
use plonky2::plonk::proof::{ProofChallenges, ProofWithPublicInputs};
use rand::Rng;
use serde_json::{json, Value};

use crate::circ::{Proven, D};
use crate::mon::{catch, Run, Tier};
use crate::props::c03::pool_member;
use crate::tamper::{self, HashTamper};

/// Flattened challenge groups in schedule order.
/// 0 betas, 1 gammas, 2 extra deltas, 3 alphas, 4 zeta, 5 fri_alpha, 6.. fri_betas[i], then pow
/// response, then query indices.
pub fn groups(ch: &ProofChallenges<F, D>, num_challenges: usize) -> Vec<Vec<u64>> {
    let c = |v: &[F]| v.iter().map(|x| x.to_canonical_u64()).collect::<Vec<_>>();
    let e = |x: &QuadraticExtension<F>| vec![x.0[0].to_canonical_u64(), x.0[1].to_canonical_u64()];
    let mut g = vec![c(&ch.plonk_betas), c(&ch.plonk_gammas)];
    g.push(if ch.plonk_deltas.len() > 2 * num_challenges { c(&ch.plonk_deltas[2 * num_challenges..]) } else { vec![] });
    g.push(c(&ch.plonk_alphas));
    g.push(e(&ch.plonk_zeta));
    g.push(e(&ch.fri_challenges.fri_alpha));
    for b in &ch.fri_challenges.fri_betas {
        g.push(e(b));
    }
    g.push(vec![ch.fri_challenges.fri_pow_response.to_canonical_u64()]);
    g.push(ch.fri_challenges.fri_query_indices.iter().map(|&x| x as u64).collect());
    g
}

/// First challenge group that is drawn AFTER a component of this class is absorbed; `None` means
/// the component is never absorbed (query answers) and no challenge may depend on it.
fn first_dependent_group(class: &str, commit_cap_index: usize, n_commit_caps: usize) -> Option<usize> {
    match class {
        "statement" | "public_input" | "wires_cap" => Some(0),
        "zs_partial_products_cap" => Some(3),
        "quotient_polys_cap" => Some(4),
        c if c.starts_with("openings.") => Some(5),
        "fri.commit_phase_cap" => Some(6 + commit_cap_index),
        "fri.final_poly" | "fri.pow_witness" => Some(6 + n_commit_caps),
        _ => None,
    }
}

struct Ctx<'a> {
    run: &'a mut Run,
    pidx: u64,
    desc: Value,
}

fn compare(ctx: &mut Ctx, base: &[Vec<u64>], new: &[Vec<u64>], first_dep: Option<usize>, what: &str, detail: Value, qi_checkable: bool) {
    let n = base.len();
    if new.len() != n {
        // number of challenges changed (e.g. num_query_rounds perturbed): compare the common prefix
    }
    for g in 0..n.min(new.len()) {
        if base[g].is_empty() && new[g].is_empty() {
            continue;
        }
        let is_indices = g == n - 1;
        let must_change = matches!(first_dep, Some(f) if g >= f);
        ctx.run.eval();
        if must_change {
            if is_indices && !qi_checkable {
                continue;
            }
            if base[g] == new[g] {
                ctx.run.violation(&format!("challenge_group_{}_unchanged_after_altering.{what}", group_name(g, n)), ctx.pidx, json!({"proof": ctx.desc, "component": what, "detail": detail, "group": g}));
            }
            ctx.run.count("pairs.must_change", 1);
        } else {
            if base[g] != new[g] {
                ctx.run.violation(&format!("challenge_group_{}_changed_by_later_or_unabsorbed.{what}", group_name(g, n)), ctx.pidx, json!({"proof": ctx.desc, "component": what, "detail": detail, "group": g}));
            }
            ctx.run.count("pairs.must_not_change", 1);
        }
    }
}

fn group_name(g: usize, n: usize) -> String {
    match g {
        0 => "betas".into(),
        1 => "gammas".into(),
        2 => "deltas".into(),
        3 => "alphas".into(),
        4 => "zeta".into(),
        5 => "fri_alpha".into(),
        x if x == n - 1 => "query_indices".into(),
        x if x == n - 2 => "pow_response".into(),
        _ => "fri_beta".into(),
    }
}

fn monitor<C: GenericConfig<D, F = F>>(run: &mut Run, pr: &Proven<C>, pidx: u64, hname: &str)
where
    <C::Hasher as Hasher<F>>::Hash: HashTamper,
{
    let common: &CommonCircuitData<F, D> = &pr.built.data.common;
    let digest = pr.built.data.verifier_only.circuit_digest;
    let nc = common.config.num_challenges;
    let chal = |p: &ProofWithPublicInputs<F, C, D>, dg: &<C::Hasher as Hasher<F>>::Hash, cd: &CommonCircuitData<F, D>| -> Option<Vec<Vec<u64>>> {
        match catch(|| p.get_challenges(p.get_public_inputs_hash(), dg, cd)) {
            Ok(Ok(c)) => Some(groups(&c, nc)),
            _ => None,
        }
    };
    let base = match chal(&pr.proof, &digest, common) {
        Some(b) => b,
        None => {
            run.inconclusive("get_challenges failed on an honest proof");
            return;
        }
    };
    let n_commit = pr.proof.proof.opening_proof.commit_phase_merkle_caps.len();
    let lde_bits = common.degree_bits() + common.config.fri_config.rate_bits;
    let qi_checkable = common.config.fri_config.num_query_rounds >= 8 && lde_bits >= 6;
    let desc = json!({"hasher": hname, "config": crate::circ::describe_config(&pr.config), "degree_bits": common.degree_bits(), "commit_phase_caps": n_commit, "challenge_groups": base.len()});
    run.sample(desc.clone());
    let mut ctx = Ctx { run, pidx, desc };
    let mut rng = crate::mon::case_rng(ctx.run.seed, 4_100, pidx);

    // 1. every proof element position
    let n = tamper::count_slots::<C>(&pr.proof);
    // commit cap index of each fri.commit_phase_cap slot
    let cap_sizes: Vec<usize> = pr.proof.proof.opening_proof.commit_phase_merkle_caps.iter().map(|c| c.0.len()).collect();
    let mut commit_slot_counter = 0usize;
    for k in 0..n {
        let (q, class) = tamper::tamper_at::<C>(&pr.proof, k, (k % 2) as u8, rng.gen());
        let mut cap_idx = 0;
        if class == "fri.commit_phase_cap" {
            let mut acc = 0;
            for (ci, sz) in cap_sizes.iter().enumerate() {
                if commit_slot_counter < acc + sz {
                    cap_idx = ci;
                    break;
                }
                acc += sz;
            }
            commit_slot_counter += 1;
        }
        // bound the number of unabsorbed (query answer) positions checked per proof
        let dep = first_dependent_group(class, cap_idx, n_commit);
        if dep.is_none() && k % 17 != 0 {
            continue;
        }
        ctx.run.nontrivial((pidx, class, cap_idx));
        ctx.run.count(&format!("components.{class}"), 1);
        match chal(&q, &digest, common) {
            Some(new) => compare(&mut ctx, &base, &new, dep, class, json!({"slot": k}), qi_checkable),
            None => ctx.run.count("get_challenges_errors_on_perturbed_input", 1),
        }
    }
    // 2. statement: circuit digest
    {
        let mut d2 = digest;
        d2.bump(0, rng.gen());
        ctx.run.count("components.circuit_digest", 1);
        if let Some(new) = chal(&pr.proof, &d2, common) {
            compare(&mut ctx, &base, &new, Some(0), "circuit_digest", json!({}), qi_checkable);
        }
    }
    // 3. statement: every FRI / degree parameter that is part of the observed parameters
    let edits: Vec<(&str, Box<dyn Fn(&mut CommonCircuitData<F, D>)>)> = vec![
        ("fri_params.config.rate_bits", Box::new(|c| c.fri_params.config.rate_bits += 1)),
        ("fri_params.config.cap_height", Box::new(|c| c.fri_params.config.cap_height += 1)),
        ("fri_params.config.proof_of_work_bits", Box::new(|c| c.fri_params.config.proof_of_work_bits += 1)),
        ("fri_params.config.num_query_rounds", Box::new(|c| c.fri_params.config.num_query_rounds += 1)),
        ("fri_params.config.reduction_strategy", Box::new(|c| c.fri_params.config.reduction_strategy = plonky2::fri::reduction_strategies::FriReductionStrategy::Fixed(vec![1, 1, 2]))),
        ("fri_params.hiding", Box::new(|c| c.fri_params.hiding = !c.fri_params.hiding)),
        ("fri_params.degree_bits", Box::new(|c| c.fri_params.degree_bits += 1)),
        ("fri_params.reduction_arity_bits.push", Box::new(|c| c.fri_params.reduction_arity_bits.push(1))),
        ("fri_params.reduction_arity_bits.first", Box::new(|c| {
            if let Some(x) = c.fri_params.reduction_arity_bits.first_mut() {
                *x += 1
            } else {
                c.fri_params.reduction_arity_bits.push(2)
            }
        })),
    ];
    for (name, edit) in edits {
        let mut c2 = common.clone();
        edit(&mut c2);
        ctx.run.count("components.fri_parameter", 1);
        ctx.run.nontrivial((pidx, name));
        if let Some(new) = chal(&pr.proof, &digest, &c2) {
            // query indices live in another domain when rate/degree change: compare field challenges only
            compare(&mut ctx, &base, &new, Some(0), name, json!({}), false);
        }
    }
}

pub fn run(tier: Tier) -> ! {
    let mut run = Run::new("C04", "exploration", tier);
    run.rule("trace specification = schedule matrix M[component class][challenge group] in {must change, must not change} derived from the protocol order (FRI params, digest, PI hash, wires cap -> betas/gammas/deltas; Z cap -> alphas; quotient cap -> zeta; openings -> FRI alpha; commit cap i -> FRI beta i; final poly, pow witness -> pow response, query indices; query answers are never absorbed). For each honest proof EVERY absorbed element position (and every 17th unabsorbed one) is perturbed and the challenges recomputed with the public get_challenges; every (component, challenge group) pair is checked against M. distinct = distinct (proof, component class, commit-cap index / parameter).");
    run.assume("honest proofs verify (C01), so the prover's transcript equals the verifier's: the verifier-side matrix binds both");
    run.assume("a changed absorbed element changes a 64-bit challenge except with probability 2^-64; query-index vectors are compared only with >= 8 queries over >= 2^6 points");
    let quick = run.quick();
    let seed = run.seed;
    let n_pos = if quick { 5u64 } else { 40 };
    let n_kec = if quick { 2u64 } else { 12 };
    for i in 0..n_pos {
        if run.skip_case(i) {
            continue;
        }
        match pool_member::<PoseidonGoldilocksConfig>(seed, 4_001, i, i as u32) {
            Ok(p) => monitor(&mut run, &p, i, "poseidon"),
            Err(e) => run.count(&format!("pool_member_not_built: {}", crate::mon::msg_class(&e)), 1),
        }
    }
    for i in 0..n_kec {
        if run.skip_case(1000 + i) {
            continue;
        }
        match pool_member::<KeccakGoldilocksConfig>(seed, 4_002, i, i as u32 + 2) {
            Ok(p) => monitor(&mut run, &p, 1000 + i, "keccak"),
            Err(e) => run.count(&format!("pool_member_not_built: {}", crate::mon::msg_class(&e)), 1),
        }
    }
    run.set_extra("stark_transcripts", json!("covered by the STARK section of this check when starky workloads are present (see counters stark.*)"));
    crate::props::c04_stark::monitor_starks(&mut run);
    run.finish()
}
