//! C07 — every value a gate computes is pinned by that gate's constraints; the evaluators agree.
//!
//! Per (gate, parameterisation): honest rows produced by the gate's own generators satisfy all
//! constraints; every generator-written wire x replacement value makes some constraint non-zero;
//! extension / base-batch (packed) / in-circuit evaluators agree on identical random inputs; the
//! number of constraints equals the declared one; the degree along random lines is within the
//! declared one (finite differences).

use std::collections::BTreeSet;

use plonky2::field::extension::{Extendable, FieldExtension};
use plonky2::field::goldilocks_field::GoldilocksField as F;
use plonky2::field::types::{Field, PrimeField64};
use plonky2::gates::arithmetic_base::ArithmeticGate;
use plonky2::gates::arithmetic_extension::ArithmeticExtensionGate;
use plonky2::gates::base_sum::BaseSumGate;
use plonky2::gates::constant::ConstantGate;
use plonky2::gates::exponentiation::ExponentiationGate;
use plonky2::gates::gate::{Gate, GateRef};
use plonky2::gates::multiplication_extension::MulExtensionGate;
use plonky2::gates::noop::NoopGate;
use plonky2::gates::poseidon::PoseidonGate;
use plonky2::gates::poseidon_mds::PoseidonMdsGate;
use plonky2::gates::public_input::PublicInputGate;
use plonky2::gates::random_access::RandomAccessGate;
use plonky2::gates::reducing::ReducingGate;
use plonky2::gates::reducing_extension::ReducingExtensionGate;
use plonky2::hash::hash_types::{HashOut, HashOutTarget};
use plonky2::iop::ext_target::ExtensionTarget;
use plonky2::iop::generator::{generate_partial_witness, GeneratedValues};
use plonky2::iop::target::Target;
use plonky2::iop::witness::{PartialWitness, PartitionWitness, Witness, WitnessWrite};
use plonky2::plonk::circuit_builder::CircuitBuilder;
use plonky2::plonk::circuit_data::CircuitConfig;
use plonky2::plonk::config::PoseidonGoldilocksConfig;
use plonky2::plonk::vars::{EvaluationTargets, EvaluationVars, EvaluationVarsBaseBatch};
use rand::Rng;
use rand_chacha::ChaCha8Rng;
use rayon::prelude::*;
use serde_json::{json, Value};

use crate::gen;
use crate::mon::{catch, msg_class, norm_loc, Run, Tier};

const D: usize = 2;
const P: u64 = 0xFFFF_FFFF_0000_0001;
type FE = <F as Extendable<D>>::Extension;

type Fixer = Box<dyn Fn(&mut Vec<F>, &[F], &HashOut<F>, &mut ChaCha8Rng) + Send + Sync>;

pub struct GateCase {
    pub name: String,
    pub family: &'static str,
    pub gate: GateRef<F, D>,
    /// establishes the gate's preconditions on the non-generated wires of a row
    pub fix: Fixer,
    /// columns a fixer deliberately ties to other data (not free inputs)
    pub heavy: bool,
}

fn gc<G: Gate<F, D>>(family: &'static str, gate: G, fix: Fixer, heavy: bool) -> GateCase {
    let g = GateRef::new(gate);
    GateCase { name: g.0.id().chars().take(90).collect(), family, gate: g, fix, heavy }
}

fn nofix() -> Fixer {
    Box::new(|_, _, _, _| {})
}

fn pow_fits_u64(b: u64, n: usize) -> Option<u64> {
    let mut acc: u128 = 1;
    for _ in 0..n {
        acc *= b as u128;
        if acc > u64::MAX as u128 {
            return None;
        }
    }
    Some(acc as u64)
}

fn base_sum_case<const B: usize>(n: usize) -> GateCase {
    gc(
        "BaseSumGate",
        BaseSumGate::<B>::new(n),
        Box::new(move |row, _, _, rng| {
            // the sum must fit `n` base-B limbs (as an integer)
            let bound = pow_fits_u64(B as u64, n);
            let v: u64 = match (bound, rng.gen_range(0..4)) {
                (Some(b), 0) => b - 1,
                (Some(b), 1) => rng.gen_range(0..b.min(4)),
                (Some(b), _) => rng.gen_range(0..b),
                (None, 0) => P - 1,
                (None, 1) => rng.gen_range(0..4),
                (None, _) => rng.gen_range(0..P),
            };
            row[0] = F(v % P);
        }),
        false,
    )
}

fn random_access_case(bits: usize, copies: usize, extras: usize) -> GateCase {
    let vs = 1usize << bits;
    let mut config = CircuitConfig::standard_recursion_config();
    config.num_routed_wires = (2 + vs) * copies + extras;
    config.num_wires = (2 + vs + bits) * copies + extras + 3;
    config.num_constants = extras.max(2);
    let gate = RandomAccessGate::<F, D>::new_from_config(&config, bits);
    let (c, e) = (gate.num_copies, gate.num_extra_constants);
    gc(
        "RandomAccessGate",
        gate,
        Box::new(move |row, consts, _, rng| {
            for copy in 0..c {
                row[(2 + vs) * copy] = F(rng.gen_range(0..vs as u64));
            }
            for i in 0..e {
                row[(2 + vs) * c + i] = consts[i];
            }
        }),
        false,
    )
}

pub fn catalogue(quick: bool) -> Vec<GateCase> {
    let mut v: Vec<GateCase> = vec![];
    for n in if quick { vec![1usize, 5, 20] } else { vec![1, 2, 5, 20, 33] } {
        v.push(gc("ArithmeticGate", ArithmeticGate { num_ops: n }, nofix(), false));
    }
    for n in if quick { vec![1usize, 10] } else { vec![1, 3, 10, 16] } {
        v.push(gc("ArithmeticExtensionGate", ArithmeticExtensionGate::<D> { num_ops: n }, nofix(), false));
    }
    for n in if quick { vec![1usize, 13] } else { vec![1, 4, 13, 22] } {
        v.push(gc("MulExtensionGate", MulExtensionGate::<D> { num_ops: n }, nofix(), false));
    }
    v.push(base_sum_case::<2>(1));
    v.push(base_sum_case::<2>(4));
    v.push(base_sum_case::<2>(63));
    v.push(base_sum_case::<2>(64));
    v.push(base_sum_case::<3>(5));
    v.push(base_sum_case::<4>(31));
    v.push(base_sum_case::<4>(32));
    if !quick {
        v.push(base_sum_case::<2>(32));
        v.push(base_sum_case::<3>(1));
        v.push(base_sum_case::<3>(40));
        v.push(base_sum_case::<4>(3));
        v.push(base_sum_case::<5>(2));
        v.push(base_sum_case::<5>(27));
        v.push(base_sum_case::<7>(3));
        v.push(base_sum_case::<7>(22));
        v.push(base_sum_case::<16>(16));
    }
    for n in if quick { vec![1usize, 2] } else { vec![1, 2, 5] } {
        // no generators of its own: the builder's constant generators copy the gate constants into the wires
        v.push(gc(
            "ConstantGate",
            ConstantGate::new(n),
            Box::new(move |row, consts, _, _| {
                for i in 0..n {
                    row[i] = consts[i];
                }
            }),
            false,
        ));
    }
    let coset: Vec<(usize, usize)> = if quick { vec![(1, 2), (2, 3), (3, 8), (4, 6)] } else { vec![(1, 2), (2, 2), (2, 3), (2, 4), (3, 2), (3, 3), (3, 5), (3, 8), (4, 2), (4, 6), (4, 8), (4, 16), (5, 4), (5, 8)] };
    for (bits, maxdeg) in coset {
        let g = plonky2::verif_hooks::coset_interpolation_gate_with_max_degree::<F, D>(bits, maxdeg);
        v.push(gc(
            "CosetInterpolationGate",
            g,
            Box::new(|row, _, _, rng| {
                // coset shift must be invertible
                if row[0] == F::ZERO {
                    row[0] = F(rng.gen_range(1..P));
                }
            }),
            false,
        ));
    }
    for n in if quick { vec![1usize, 13, 66] } else { vec![1, 2, 13, 32, 66] } {
        v.push(gc(
            "ExponentiationGate",
            ExponentiationGate::<F, D>::new(n),
            Box::new(move |row, _, _, rng| {
                for i in 0..n {
                    row[1 + i] = F(rng.gen_range(0..2));
                }
            }),
            false,
        ));
    }
    v.push(gc(
        "PoseidonGate",
        PoseidonGate::<F, D>::new(),
        Box::new(|row, _, _, rng| {
            row[24] = F(rng.gen_range(0..2)); // swap flag is boolean
        }),
        true,
    ));
    v.push(gc("PoseidonMdsGate", PoseidonMdsGate::<F, D>::new(), nofix(), true));
    v.push(gc(
        "PublicInputGate",
        PublicInputGate,
        Box::new(|row, _, pih, _| {
            for i in 0..4 {
                row[i] = pih.elements[i];
            }
        }),
        false,
    ));
    let ra: Vec<(usize, usize, usize)> = if quick { vec![(1, 1, 0), (2, 3, 1), (4, 4, 2), (6, 1, 2)] } else { vec![(1, 1, 0), (1, 20, 2), (2, 3, 1), (3, 4, 0), (4, 4, 2), (5, 2, 1), (6, 1, 2)] };
    for (bits, copies, extras) in ra {
        v.push(random_access_case(bits, copies, extras));
    }
    for n in if quick { vec![1usize, 22] } else { vec![1, 3, 22, 43] } {
        v.push(gc("ReducingGate", ReducingGate::<D>::new(n), nofix(), false));
    }
    for n in if quick { vec![1usize, 15] } else { vec![1, 2, 15, 32] } {
        v.push(gc("ReducingExtensionGate", ReducingExtensionGate::<D>::new(n), nofix(), false));
    }
    v.push(gc("NoopGate", NoopGate, nofix(), false));
    v
}

#[derive(Default)]
struct Acc {
    evals: u64,
    counters: std::collections::BTreeMap<String, u64>,
    fails: Vec<(String, Value)>,
    inconclusive: Vec<String>,
    keys: Vec<String>,
}
impl Acc {
    fn c(&mut self, k: &str, n: u64) {
        *self.counters.entry(k.to_string()).or_insert(0) += n;
    }
}

fn eval_base_as_ext(gate: &GateRef<F, D>, consts: &[F], row: &[F], pih: &HashOut<F>) -> Vec<FE> {
    let lc: Vec<FE> = consts.iter().map(|&x| FE::from(x)).collect();
    let lw: Vec<FE> = row.iter().map(|&x| FE::from(x)).collect();
    gate.0.eval_unfiltered(EvaluationVars::<F, D> { local_constants: &lc, local_wires: &lw, public_inputs_hash: pih })
}

fn one_row_witness<'a>(row: &[F], id_map: &'a [usize]) -> PartitionWitness<'a, F> {
    PartitionWitness { values: row.iter().map(|x| Some(*x)).collect(), representative_map: id_map, num_wires: row.len(), degree: 1 }
}

/// Runs the gate's generators on `row` (all cells present) and returns what they wrote.
fn run_generators(gate: &GateRef<F, D>, consts: &[F], row: &[F], id_map: &[usize]) -> Result<Vec<(usize, F)>, String> {
    let gens = gate.0.generators(0, consts);
    let pw = one_row_witness(row, id_map);
    let mut written = vec![];
    for g in gens.iter() {
        let mut out = GeneratedValues::<F>::with_capacity(8);
        let done = catch(|| g.0.run(&pw, &mut out)).map_err(|p| format!("generator {} panicked: {} @ {}", g.0.id(), p.msg, norm_loc(&p.loc)))?;
        if !done {
            return Err(format!("generator {} did not finish on a fully populated row", g.0.id()));
        }
        for (t, val) in out.target_values {
            match t {
                Target::Wire(w) if w.row == 0 => written.push((w.column, val)),
                other => return Err(format!("generator {} wrote outside its row: {:?}", g.0.id(), other)),
            }
        }
    }
    Ok(written)
}

fn replacement(mode: u8, v: u64, rng: &mut ChaCha8Rng) -> u64 {
    let nv = match mode {
        0 => (v + 1) % P,
        1 => {
            if v == 0 {
                1
            } else {
                0
            }
        }
        2 => {
            if v == 0 {
                P - 1
            } else {
                P - v
            }
        }
        3 => ((v as u128 * 2) % P as u128) as u64,
        _ => rng.gen_range(0..P),
    };
    if nv == v {
        (v + 1) % P
    } else {
        nv
    }
}

struct CircuitEval {
    data: plonky2::plonk::circuit_data::CircuitData<F, PoseidonGoldilocksConfig, D>,
    wires: Vec<ExtensionTarget<D>>,
    consts: Vec<ExtensionTarget<D>>,
    pih: HashOutTarget,
    outs: Vec<ExtensionTarget<D>>,
}

/// Configurations under which the in-circuit evaluators are instantiated: several gates emit
/// different sub-circuits depending on what the surrounding configuration can host (e.g. the
/// Poseidon gate uses the MDS gate only when enough routed wires are available).
fn circuit_eval_configs() -> Vec<(&'static str, CircuitConfig)> {
    let std = CircuitConfig::standard_recursion_config();
    let narrow = CircuitConfig { num_routed_wires: 37, ..CircuitConfig::standard_recursion_config() };
    let wide = CircuitConfig { num_wires: 234, num_routed_wires: 120, ..CircuitConfig::standard_recursion_config() };
    vec![("standard", std), ("narrow_37_routed", narrow), ("wide_120_routed", wide)]
}

fn build_circuit_eval(gate: &GateRef<F, D>, config: CircuitConfig) -> Result<CircuitEval, String> {
    let g = gate.clone();
    catch(move || {
        let mut b = CircuitBuilder::<F, D>::new(config);
        let wires = b.add_virtual_extension_targets(g.0.num_wires());
        let consts = b.add_virtual_extension_targets(g.0.num_constants());
        let pih = b.add_virtual_hash();
        let outs = g.0.eval_unfiltered_circuit(&mut b, EvaluationTargets { local_constants: &consts, local_wires: &wires, public_inputs_hash: &pih });
        // keep the outputs alive as public inputs so that nothing is optimised away
        for o in outs.iter() {
            b.register_public_inputs(&o.0);
        }
        let data = b.build::<PoseidonGoldilocksConfig>();
        CircuitEval { data, wires, consts, pih, outs }
    })
    .map_err(|p| format!("building the in-circuit evaluator panicked: {} @ {}", p.msg, norm_loc(&p.loc)))
}

fn run_case(seed: u64, idx: u64, gcse: &GateCase, quick: bool) -> Acc {
    let mut acc = Acc::default();
    let mut rng = crate::mon::case_rng(seed, 7_001, idx);
    let bset = gen::boundary_set();
    let gate = &gcse.gate;
    let nw = gate.0.num_wires();
    let ncn = gate.0.num_constants();
    let id_map: Vec<usize> = (0..nw).collect();
    let fam = gcse.family;
    let ctx = json!({"gate": gcse.name, "num_wires": nw, "num_constants": ncn, "declared_constraints": gate.0.num_constraints(), "declared_degree": gate.0.degree()});
    acc.keys.push(gcse.name.clone());
    let n_rows = if quick { if gcse.heavy { 12 } else { 40 } } else if gcse.heavy { 40 } else { 200 };
    let modes: Vec<u8> = if quick { vec![0, 4] } else { vec![0, 1, 2, 3, 4] };
    let mut written_cols_seen: BTreeSet<usize> = BTreeSet::new();

    // ---- 1 + 2: honest rows and per-wire perturbation ------------------------------------------
    for r in 0..n_rows {
        let consts: Vec<F> = (0..ncn).map(|_| if r % 2 == 0 { gen::f_canon(&mut rng, &bset) } else { gen::f_uniform(&mut rng) }).collect();
        let pih = HashOut { elements: [gen::f_uniform(&mut rng), gen::f_uniform(&mut rng), gen::f_uniform(&mut rng), gen::f_uniform(&mut rng)] };
        // dry pass: which columns do the generators write?
        let mut dry: Vec<F> = (0..nw).map(|_| gen::f_uniform(&mut rng)).collect();
        (gcse.fix)(&mut dry, &consts, &pih, &mut rng);
        let written = match run_generators(gate, &consts, &dry, &id_map) {
            Ok(w) => w,
            Err(e) => {
                acc.fails.push((format!("{fam}.generator_failed_on_admissible_row"), json!({"ctx": ctx, "err": e})));
                return acc;
            }
        };
        let wcols: BTreeSet<usize> = written.iter().map(|(c, _)| *c).collect();
        // real pass: boundary-biased inputs, preconditions, generators (twice: outputs must be stable)
        let mut row: Vec<F> = (0..nw).map(|_| if r % 3 == 0 { gen::f_uniform(&mut rng) } else { gen::f_canon(&mut rng, &bset) }).collect();
        (gcse.fix)(&mut row, &consts, &pih, &mut rng);
        let mut ok = true;
        for pass in 0..2 {
            match run_generators(gate, &consts, &row, &id_map) {
                Ok(w) => {
                    for (c, v) in w {
                        if pass == 1 && row[c] != v {
                            acc.fails.push((format!("{fam}.generator_output_not_stable"), json!({"ctx": ctx, "column": c})));
                        }
                        row[c] = v;
                    }
                }
                Err(e) => {
                    acc.fails.push((format!("{fam}.generator_failed_on_admissible_row"), json!({"ctx": ctx, "err": e})));
                    ok = false;
                    break;
                }
            }
        }
        if !ok {
            return acc;
        }
        written_cols_seen.extend(wcols.iter().copied());
        acc.evals += 1;
        acc.c(&format!("{fam}.honest_rows"), 1);
        let cs = match catch(|| eval_base_as_ext(gate, &consts, &row, &pih)) {
            Ok(c) => c,
            Err(p) => {
                acc.fails.push((format!("{fam}.eval_unfiltered.panic@{}", norm_loc(&p.loc)), json!({"ctx": ctx, "panic": msg_class(&p.msg)})));
                return acc;
            }
        };
        if cs.len() != gate.0.num_constraints() {
            acc.fails.push((format!("{fam}.constraint_count_differs_from_declared"), json!({"ctx": ctx, "evaluated": cs.len()})));
        }
        if let Some(k) = cs.iter().position(|c| *c != FE::ZERO) {
            acc.fails.push((format!("{fam}.honest_row_violates_constraint"), json!({"ctx": ctx, "constraint": k, "row": row.iter().take(12).map(|x| x.to_canonical_u64()).collect::<Vec<_>>()})));
            continue;
        }
        // perturb every generator-written wire
        for &c in wcols.iter() {
            for &m in modes.iter() {
                let v = row[c].to_canonical_u64();
                let nv = replacement(m, v, &mut rng);
                let mut row2 = row.clone();
                row2[c] = F(nv);
                acc.evals += 1;
                acc.c(&format!("{fam}.written_wire_perturbations"), 1);
                let cs2 = eval_base_as_ext(gate, &consts, &row2, &pih);
                if cs2.iter().all(|x| *x == FE::ZERO) {
                    acc.fails.push((format!("{fam}.generated_value_not_pinned"), json!({"ctx": ctx, "column": c, "old": v, "new": nv, "mode": m})));
                }
            }
        }
    }
    acc.c(&format!("{fam}.generator_written_columns"), written_cols_seen.len() as u64);

    // ---- 3: evaluator agreement on identical random inputs ------------------------------------
    let batch_sizes: Vec<usize> = if quick { vec![1, 3, 4, 5, 8, 9, 32] } else { vec![1, 2, 3, 4, 5, 7, 8, 9, 15, 16, 17, 32, 33] };
    for &bs in batch_sizes.iter() {
        let consts: Vec<Vec<F>> = (0..bs).map(|_| (0..ncn).map(|_| gen::f_canon(&mut rng, &bset)).collect()).collect();
        let rows: Vec<Vec<F>> = (0..bs).map(|i| (0..nw).map(|_| if i % 2 == 0 { gen::f_canon(&mut rng, &bset) } else { gen::f_uniform(&mut rng) }).collect()).collect();
        let pih = HashOut { elements: [gen::f_uniform(&mut rng), gen::f_uniform(&mut rng), gen::f_uniform(&mut rng), gen::f_uniform(&mut rng)] };
        // point-major layout: column k of all points, then column k+1 ...
        let mut cflat = vec![F::ZERO; ncn * bs];
        let mut wflat = vec![F::ZERO; nw * bs];
        for i in 0..bs {
            for k in 0..ncn {
                cflat[k * bs + i] = consts[i][k];
            }
            for k in 0..nw {
                wflat[k * bs + i] = rows[i][k];
            }
        }
        let res = catch(|| gate.0.eval_unfiltered_base_batch(EvaluationVarsBaseBatch::new(bs, &cflat, &wflat, &pih)));
        let res = match res {
            Ok(r) => r,
            Err(p) => {
                acc.fails.push((format!("{fam}.eval_unfiltered_base_batch.panic@{}", norm_loc(&p.loc)), json!({"ctx": ctx, "batch": bs, "panic": msg_class(&p.msg)})));
                continue;
            }
        };
        let nc = gate.0.num_constraints();
        if res.len() != nc * bs {
            acc.fails.push((format!("{fam}.base_batch_length_differs_from_declared"), json!({"ctx": ctx, "batch": bs, "len": res.len(), "expected": nc * bs})));
            continue;
        }
        for i in 0..bs {
            let e = eval_base_as_ext(gate, &consts[i], &rows[i], &pih);
            acc.evals += 1;
            acc.c(&format!("{fam}.base_batch_vs_extension_points"), 1);
            for k in 0..nc.min(e.len()) {
                let b = res[k * bs + i];
                if e[k] != FE::from(b) {
                    acc.fails.push((format!("{fam}.base_batch_evaluator_differs_from_extension_evaluator"), json!({"ctx": ctx, "batch": bs, "point": i, "constraint": k, "variant": Run::variant_name()})));
                    break;
                }
            }
        }
    }
    // in-circuit evaluator on extension-valued inputs (independent of the SIMD build: primary process only)
    if Run::is_sub() {
        return acc;
    }
    for (cfg_name, cfg) in circuit_eval_configs() {
    let ctx = json!({"gate_ctx": ctx, "evaluator_circuit_config": cfg_name});
    match build_circuit_eval(gate, cfg) {
        Ok(ce) => {
            if ce.outs.len() != gate.0.num_constraints() {
                acc.fails.push((format!("{fam}.circuit_constraint_count_differs_from_declared"), json!({"ctx": ctx, "circuit": ce.outs.len()})));
            }
            let n_ext = if quick { 2 } else { 8 };
            for _ in 0..n_ext {
                let re = |rng: &mut ChaCha8Rng| FE::from_basefield_array([gen::f_uniform(rng), gen::f_uniform(rng)]);
                let lw: Vec<FE> = (0..nw).map(|_| re(&mut rng)).collect();
                let lc: Vec<FE> = (0..ncn).map(|_| re(&mut rng)).collect();
                let pih = HashOut { elements: [gen::f_uniform(&mut rng), gen::f_uniform(&mut rng), gen::f_uniform(&mut rng), gen::f_uniform(&mut rng)] };
                let native = gate.0.eval_unfiltered(EvaluationVars::<F, D> { local_constants: &lc, local_wires: &lw, public_inputs_hash: &pih });
                let mut pw = PartialWitness::<F>::new();
                for (t, v) in ce.wires.iter().zip(lw.iter()) {
                    pw.set_extension_target(*t, *v).unwrap();
                }
                for (t, v) in ce.consts.iter().zip(lc.iter()) {
                    pw.set_extension_target(*t, *v).unwrap();
                }
                pw.set_hash_target(ce.pih, pih).unwrap();
                acc.evals += 1;
                acc.c(&format!("{fam}.circuit_vs_extension_points.{cfg_name}"), 1);
                match catch(|| generate_partial_witness(pw, &ce.data.prover_only, &ce.data.common)) {
                    Ok(Ok(w)) => {
                        for (k, t) in ce.outs.iter().enumerate() {
                            let got = w.get_extension_target(*t);
                            if k < native.len() && got != native[k] {
                                acc.fails.push((format!("{fam}.circuit_evaluator_differs_from_extension_evaluator"), json!({"ctx": ctx, "constraint": k})));
                                break;
                            }
                        }
                    }
                    Ok(Err(e)) => acc.fails.push((format!("{fam}.circuit_evaluator_witness_generation_failed"), json!({"ctx": ctx, "err": e.to_string()}))),
                    Err(p) => acc.fails.push((format!("{fam}.circuit_evaluator_witness_generation_panicked@{}", norm_loc(&p.loc)), json!({"ctx": ctx, "panic": msg_class(&p.msg)}))),
                }
            }
        }
        Err(e) => acc.fails.push((format!("{fam}.circuit_evaluator_not_buildable"), json!({"ctx": ctx, "err": e}))),
    }
    }
    // ---- 5: degree along random lines (finite differences) -------------------------------------
    let deg = gate.0.degree();
    for _ in 0..if quick { 2 } else { 6 } {
        let re = |rng: &mut ChaCha8Rng| FE::from_basefield_array([gen::f_uniform(rng), gen::f_uniform(rng)]);
        let (a_w, b_w): (Vec<FE>, Vec<FE>) = (0..nw).map(|_| (re(&mut rng), re(&mut rng))).unzip();
        let (a_c, b_c): (Vec<FE>, Vec<FE>) = (0..ncn).map(|_| (re(&mut rng), re(&mut rng))).unzip();
        let pih = HashOut { elements: [gen::f_uniform(&mut rng), gen::f_uniform(&mut rng), gen::f_uniform(&mut rng), gen::f_uniform(&mut rng)] };
        // values at t = 0..=deg+1
        let mut table: Vec<Vec<FE>> = vec![];
        for t in 0..=(deg + 1) {
            let tt = FE::from_canonical_u64(t as u64);
            let lw: Vec<FE> = a_w.iter().zip(b_w.iter()).map(|(a, b)| *a + *b * tt).collect();
            let lc: Vec<FE> = a_c.iter().zip(b_c.iter()).map(|(a, b)| *a + *b * tt).collect();
            table.push(gate.0.eval_unfiltered(EvaluationVars::<F, D> { local_constants: &lc, local_wires: &lw, public_inputs_hash: &pih }));
        }
        acc.evals += 1;
        acc.c(&format!("{fam}.degree_lines"), 1);
        let nc = table[0].len();
        for k in 0..nc {
            // (deg+1)-th finite difference must vanish
            let mut col: Vec<FE> = table.iter().map(|row| row[k]).collect();
            for _ in 0..=deg {
                col = col.windows(2).map(|w| w[1] - w[0]).collect();
            }
            if col[0] != FE::ZERO {
                acc.fails.push((format!("{fam}.constraint_degree_exceeds_declared"), json!({"ctx": ctx, "constraint": k})));
                break;
            }
        }
    }
    acc
}

pub fn run(tier: Tier) -> ! {
    let mut run = Run::new("C07", "fault_enumeration", tier);
    run.rule("for every built-in gate family x parameter grid (ops per gate, limb counts x bases 2,3,4,5,7,16, constants, coset sizes 2..32 x degree bounds, exponent bits 1..66, random-access bits 1..6 x copies x extra constants, reducing coefficient counts): (1) rows whose free wires are boundary-biased values meeting the gate's preconditions and whose remaining wires are written by the gate's own generators satisfy every constraint; (2) EVERY generator-written wire x replacement value (+1, 0/1, negation, doubling, random) makes some constraint non-zero; (3) eval_unfiltered (extension) == eval_unfiltered_base_batch for batch sizes around the packing width (packed path in the AVX builds) == eval_unfiltered_circuit evaluated by witness generation, on identical random inputs; (4) evaluated constraint count == num_constraints(); (5) the (degree()+1)-th finite difference of every constraint along random lines through wire+constant space vanishes. distinct = gate parameterisations.");
    run.assume("preconditions per gate (limbs fit, boolean exponent bits / swap flag, index below list size, invertible coset shift) are written in the harness from the gadget code that places the gates");
    let quick = run.quick();
    let cases = catalogue(quick);
    let seed = run.seed;
    let only = run.only_case;
    let accs: Vec<(usize, Acc)> = cases
        .par_iter()
        .enumerate()
        .filter(|(i, _)| only.map(|o| o == *i as u64).unwrap_or(true))
        .map(|(i, g)| (i, run_case(seed, i as u64, g, quick)))
        .collect();
    let mut families = BTreeSet::new();
    for (i, acc) in accs {
        families.insert(cases[i].family);
        run.evals(acc.evals);
        for (k, v) in acc.counters {
            run.count(&k, v);
        }
        for k in acc.keys {
            run.nontrivial(k);
        }
        for w in acc.inconclusive {
            run.inconclusive(&w);
        }
        for (sig, d) in acc.fails {
            run.violation(&sig, i as u64, d);
        }
    }
    run.count("gate_parameterisations", cases.len() as u64);
    run.set_extra("gate_families", json!(families));
    run.set_extra("packing", json!(format!("{}", std::any::type_name::<<F as plonky2::field::packable::Packable>::Packing>())));
    run.sample(json!({"gate": cases[0].name, "checks": ["honest row", "per-wire perturbation", "evaluator agreement", "constraint count", "degree"]}));
    run.sample(json!({"gate": cases[cases.len() / 2].name}));
    if !Run::is_sub() {
        run.run_variants();
    }
    run.finish()
}
