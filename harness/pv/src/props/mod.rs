pub mod c14;
