pub mod c12;
pub mod c13;
pub mod c14;
pub mod c15;
