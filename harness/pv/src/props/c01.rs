//! C01 — honest proofs of satisfiable circuits verify and carry the right outputs.

use std::collections::BTreeMap;

use plonky2::field::goldilocks_field::GoldilocksField as F;
use plonky2::field::types::PrimeField64;
use plonky2::iop::generator::generate_partial_witness;
use plonky2::iop::witness::{PartialWitness, Witness, WitnessWrite};
use plonky2::plonk::circuit_data::CircuitConfig;
use plonky2::plonk::config::{GenericConfig, KeccakGoldilocksConfig, PoseidonGoldilocksConfig};
use plonky2::plonk::prover::prove_with_partition_witness;
use plonky2::util::timing::TimingTree;
use rand::Rng;
use rayon::prelude::*;
use serde_json::{json, Value};

use crate::circ::{self, GenOpts, D};
use crate::gen;
use crate::mon::{catch, msg_class, norm_loc, Run, Tier};

#[derive(Default)]
pub struct CaseOut {
    pub evals: u64,
    pub fails: Vec<(String, Value)>,
    pub counters: BTreeMap<String, u64>,
    pub refused: Option<String>,
    pub sample: Option<Value>,
    pub key: Option<(usize, usize, String)>,
    pub harness_error: Option<String>,
}
impl CaseOut {
    fn c(&mut self, k: &str) {
        *self.counters.entry(k.to_string()).or_insert(0) += 1;
    }
}

/// Documented refusals of the builder / prover for configurations outside the admissible set.
pub fn is_documented_refusal(msg: &str) -> bool {
    [
        "FRI total reduction arity is too large",
        "FRI params fall short of target security",
        "requires",               // gate needs more wires / constants than the config has
        "has too high degree",    // gate degree above the quotient degree factor
        "When the number of routed wires is smaller that the degree",
        "Not enough routed wires",
        "cap_height=",
        "should be at most",
        "No gates?",
        "degree_bits >= arity_bits",            // ConstantArityBits arity above the degree
        "isn't routable",                       // gadget needs more routed wires than configured
        "i < self.num_power_bits",              // same, caught earlier by a debug assertion (exp with > routed-2 bits)
    ]
    .iter()
    .any(|m| msg.contains(m))
}

/// Shape of the panic with which the builder's blinding-degree search (`blinding_counts`) ends when
/// it never finds a degree that fits: the estimate doubles until its arithmetic overflows (checked
/// build) or wraps to zero (plain release).
fn is_degree_search_overflow(msg: &str, loc: &str) -> bool {
    loc.contains("plonk/circuit_builder.rs")
        && (msg.contains("attempt to multiply with overflow") || msg.contains("attempt to add with overflow") || msg.contains("Not a power of two: 0"))
}

/// Independent (harness-side, u128) decision that zero-knowledge blinding cannot fit at *any* trace
/// length under a `Fixed` reduction strategy, whose arity list does not depend on the degree: every
/// query opens `1 + D*sum(arity-1) + D*final_poly_len` values of each polynomial, a regular
/// polynomial needs one blinding row per opened value (+D for zeta), a Z polynomial two rows per
/// opened value (+2D for zeta, g*zeta); with `final_poly_len = 2^k / prod(arities)` the demand grows
/// as fast as the degree when `3*D*queries >= prod(arities)`. Such a configuration is inadmissible
/// (the property quantifies over admissible ones); the builder refuses it by running its degree
/// search until the arithmetic overflows. Returns None for strategies this closed form does not cover.
pub fn zk_blinding_infeasible(config: &CircuitConfig) -> Option<bool> {
    use plonky2::fri::reduction_strategies::FriReductionStrategy;
    if !config.zero_knowledge {
        return None;
    }
    let arities = match &config.fri_config.reduction_strategy {
        FriReductionStrategy::Fixed(a) => a.clone(),
        _ => return None,
    };
    let d = D as u128;
    let q = config.fri_config.num_query_rounds as u128;
    let total_bits: usize = arities.iter().sum();
    let folding_points: u128 = arities.iter().map(|a| (1u128 << a) - 1).sum();
    for k in 0..64usize {
        let degree = 1u128 << k;
        let final_poly_coeffs = if total_bits > k { 0 } else { degree >> total_bits };
        let fri_openings = q * (1 + d * folding_points + d * final_poly_coeffs);
        let regular = d + fri_openings;
        let z = 2 * d + fri_openings;
        if regular + 2 * z <= degree {
            return Some(false); // fits an empty circuit at 2^k rows, so it fits any circuit at some larger degree
        }
    }
    Some(true)
}

pub fn run_case<C: GenericConfig<D, F = F>>(seed: u64, case: u64, quick: bool, hname: &str) -> CaseOut {
    let mut out = CaseOut::default();
    let bset = gen::boundary_set();
    let mut rng = crate::mon::case_rng(seed, 1_001, case);
    let n_ops = match rng.gen_range(0..10) {
        0 => rng.gen_range(1..6),
        1..=5 => rng.gen_range(6..60),
        6..=8 => rng.gen_range(60..200),
        _ => rng.gen_range(200..if quick { 300 } else { 700 }),
    };
    let opts = GenOpts { n_ops, lookups: rng.gen_bool(0.35), hashing: rng.gen_bool(0.5), extension: rng.gen_bool(0.6), max_table_len: 120, only_base2: false };
    let (prog, base_inputs) = circ::gen_program(&mut rng, &bset, &opts);
    let sampled_cfg = rng.gen_bool(0.45);
    let config: CircuitConfig = if sampled_cfg { circ::gen_config(&mut rng, true) } else { circ::fast_config() };
    let ctx = json!({"case": case, "hasher": hname, "program": prog.describe(), "config": circ::describe_config(&config)});
    // reference evaluation on the designated input must succeed (guided generation)
    let ref_base = match prog.eval(&base_inputs) {
        Ok(e) => e,
        Err(u) => {
            out.harness_error = Some(format!("designated input violates the generated program at op {}: {}", u.op_index, u.why));
            return out;
        }
    };
    let built = match catch(|| circ::build::<C>(&prog, &config)) {
        Ok(b) => b,
        Err(p) => {
            if is_documented_refusal(&p.msg) {
                out.refused = Some(msg_class(&p.msg));
            } else if is_degree_search_overflow(&p.msg, &p.loc) && zk_blinding_infeasible(&config) == Some(true) {
                out.refused = Some("zk blinding cannot fit at any degree (Fixed strategy, confirmed by the harness): degree search diverged".into());
            } else {
                out.fails.push((format!("build.panic@{}:{}", norm_loc(&p.loc), msg_class(&p.msg)), json!({"ctx": ctx, "panic": p.msg, "loc": p.loc})));
            }
            return out;
        }
    };
    let degree_bits = built.data.common.degree_bits();
    out.key = Some((prog.ops.len(), degree_bits, format!("{:?}", circ::describe_config(&config))));
    for g in built.data.common.gates.iter() {
        let id = g.0.id();
        let short = id.split(|ch: char| ch == ' ' || ch == '{' || ch == '<' || ch == '(').next().unwrap_or("").to_string();
        out.c(&format!("gate.{short}"));
    }
    out.c(&format!("degree_bits.{degree_bits}"));
    out.c(if config.zero_knowledge { "config.zk" } else { "config.no_zk" });
    out.c(&format!("config.rate_bits.{}", config.fri_config.rate_bits));
    out.c(&format!("config.qdf.{}", config.max_quotient_degree_factor));
    out.c(&format!("config.challenges.{}", config.num_challenges));
    out.c(&format!("config.strategy.{}", format!("{:?}", config.fri_config.reduction_strategy).split('(').next().unwrap()));
    out.c(&format!("hasher.{hname}"));
    if !prog.tables.is_empty() {
        out.c("programs_with_lookup_tables");
    }
    for op in &prog.ops {
        out.c(&format!("op.{}", circ::op_kind(op)));
    }
    // input sets: designated + boundary-biased alternatives that still satisfy the program
    let mut input_sets: Vec<(Vec<u64>, circ::EvalOut)> = vec![(base_inputs.clone(), ref_base)];
    for _ in 0..3 {
        let alt: Vec<u64> = base_inputs.iter().map(|&v| if rng.gen_bool(0.5) { gen::canon_u64(&mut rng, &bset) } else { v }).collect();
        match prog.eval(&alt) {
            Ok(e) => input_sets.push((alt, e)),
            Err(_) => out.c("alt_inputs_in_negative_set"),
        }
    }
    for (k, (inputs, want)) in input_sets.iter().enumerate() {
        if k >= 2 && quick {
            break;
        }
        out.evals += 1;
        let ictx = json!({"ctx": ctx, "inputs": inputs});
        let mut pw = PartialWitness::<F>::new();
        for (t, v) in built.input_targets.iter().zip(inputs) {
            pw.set_target(*t, F(*v)).unwrap();
        }
        // witness generation + semantic comparison of every register
        let wit = match catch(|| generate_partial_witness(pw, &built.data.prover_only, &built.data.common)) {
            Ok(Ok(w)) => w,
            Ok(Err(e)) => {
                out.fails.push(("witness_generation.error_on_satisfying_input".into(), json!({"ctx": ictx, "err": e.to_string()})));
                continue;
            }
            Err(p) => {
                out.fails.push((format!("witness_generation.panic@{}", norm_loc(&p.loc)), json!({"ctx": ictx, "panic": p.msg})));
                continue;
            }
        };
        let mut bad_reg = None;
        for (ri, t) in built.reg_targets.iter().enumerate() {
            match wit.try_get_target(*t) {
                Some(v) if v.to_canonical_u64() == want.regs[ri] => {}
                Some(v) => {
                    bad_reg = Some((ri, Some(v.to_canonical_u64())));
                    break;
                }
                None => {
                    bad_reg = Some((ri, None));
                    break;
                }
            }
        }
        if let Some((ri, got)) = bad_reg {
            let opi = want.op_first_reg.iter().rposition(|&f| f <= ri).unwrap_or(0);
            out.fails.push((format!("witness.register_differs_from_interpreter.{}", circ::op_kind(&prog.ops[opi])), json!({"ctx": ictx, "register": ri, "op_index": opi, "op": format!("{:?}", prog.ops[opi]), "witness": got, "interpreter": want.regs[ri]})));
            continue;
        }
        let proof = match catch(|| prove_with_partition_witness(&built.data.prover_only, &built.data.common, wit, &mut TimingTree::default())) {
            Ok(Ok(p)) => p,
            Ok(Err(e)) => {
                out.fails.push(("prove.error_on_satisfying_input".into(), json!({"ctx": ictx, "err": e.to_string()})));
                continue;
            }
            Err(p) => {
                out.fails.push((format!("prove.panic@{}:{}", norm_loc(&p.loc), msg_class(&p.msg)), json!({"ctx": ictx, "panic": p.msg})));
                continue;
            }
        };
        let pis: Vec<u64> = proof.public_inputs.iter().map(|x| x.to_canonical_u64()).collect();
        if pis != want.publics {
            out.fails.push(("proof.public_inputs_differ_from_interpreter".into(), json!({"ctx": ictx, "proof": pis, "interpreter": want.publics})));
        }
        match catch(|| built.data.verify(proof.clone())) {
            Ok(Ok(())) => {}
            Ok(Err(e)) => out.fails.push(("verify.rejected_honest_proof".into(), json!({"ctx": ictx, "err": e.to_string()}))),
            Err(p) => out.fails.push((format!("verify.panic@{}", norm_loc(&p.loc)), json!({"ctx": ictx, "panic": p.msg}))),
        }
        // separately constructed verifier data
        let vd = built.data.verifier_data();
        match catch(|| vd.verify(proof.clone())) {
            Ok(Ok(())) => {}
            Ok(Err(e)) => out.fails.push(("verifier_data.verify.rejected_honest_proof".into(), json!({"ctx": ictx, "err": e.to_string()}))),
            Err(p) => out.fails.push((format!("verifier_data.verify.panic@{}", norm_loc(&p.loc)), json!({"ctx": ictx, "panic": p.msg}))),
        }
        // compressed path (shared with C16)
        match catch(|| {
            let cp = built.data.compress(proof.clone())?;
            built.data.verify_compressed(cp)
        }) {
            Ok(Ok(())) => {}
            Ok(Err(e)) => out.fails.push(("compress_verify.rejected_honest_proof".into(), json!({"ctx": ictx, "err": e.to_string()}))),
            Err(p) => out.fails.push((format!("compress_verify.panic@{}", norm_loc(&p.loc)), json!({"ctx": ictx, "panic": p.msg}))),
        }
        if k == 0 && case % 37 == 0 {
            out.sample = Some(json!({"program": prog.describe(), "config": circ::describe_config(&config), "hasher": hname, "degree_bits": degree_bits, "inputs": inputs, "public_inputs": pis}));
        }
    }
    out
}

pub fn merge(run: &mut Run, case: u64, out: CaseOut, refusals: &mut BTreeMap<String, u64>) {
    run.evals(out.evals);
    if let Some(k) = out.key {
        run.nontrivial(k);
    }
    for (k, v) in out.counters {
        run.count(&k, v);
    }
    if let Some(r) = out.refused {
        *refusals.entry(r).or_insert(0) += 1;
        run.count("configs_refused_by_builder", 1);
    }
    if let Some(s) = out.sample {
        run.sample(s);
    }
    if let Some(h) = out.harness_error {
        run.inconclusive(&format!("harness: {h}"));
    }
    for (sig, d) in out.fails {
        run.violation(&sig, case, d);
    }
}

pub fn run(tier: Tier) -> ! {
    let mut run = Run::new("C01", "exploration", tier);
    run.rule("case = seeded straight-line program over the built-in gadgets (1..700 ops; arithmetic, extension arithmetic, bit/limb splits, range checks, selection, random access, exponentiation, hashing, reductions, lookups) + designated satisfying input + boundary-biased alternative inputs that the interpreter classifies as satisfying + configuration (55% cheap standard layout, 45% sampled from the admissible lattice: zk, strategy, rate 3..5, quotient factor 7..16, cap height 0..4, 1..3 challenges, 135..234 wires, 40..135 routed) x {Poseidon, Keccak}. Oracles: every register of the generated witness equals the direct interpreter; proving succeeds; CircuitData::verify, a separately built VerifierCircuitData and compress+verify_compressed accept; proof public inputs equal the interpreter. distinct = distinct (program size, degree bits, configuration).");
    run.assume("interpreter (circ.rs over refmodel u128 arithmetic, textbook Poseidon) is the specification of the gadget semantics");
    run.assume("configurations the builder refuses with one of its documented assertions are outside the admissible set and are counted, not judged");
    run.assume("admissible = accepted by CircuitBuilder::build; the only other refusal that is not judged is zero knowledge with a Fixed reduction strategy whose blinding demand grows as fast as the trace (decided by the harness's own closed form, not by the panic text alone)");
    let quick = run.quick();
    let n_cases: u64 = run.pick(600, 12000);
    let seed = run.seed;
    let only = run.only_case;
    let outs: Vec<(u64, CaseOut)> = (0..n_cases)
        .into_par_iter()
        .filter(|c| only.map(|o| o == *c).unwrap_or(true))
        .map(|case| {
            let out = if case % 4 == 3 { run_case::<KeccakGoldilocksConfig>(seed, case, quick, "keccak") } else { run_case::<PoseidonGoldilocksConfig>(seed, case, quick, "poseidon") };
            (case, out)
        })
        .collect();
    let mut refusals = BTreeMap::new();
    for (case, out) in outs {
        merge(&mut run, case, out, &mut refusals);
    }
    run.set_extra("builder_refusal_classes", json!(refusals));
    run.count("cases", n_cases);
    run.finish()
}
