//! C14 — field arithmetic is exact modular arithmetic on every representation.
//! Differential monitor against u128 arithmetic + assumption monitor (H1).

use std::collections::BTreeMap;
use std::sync::atomic::Ordering;

use num::BigUint;
use plonky2::field::batch_util::{batch_add_inplace, batch_multiply_inplace};
use plonky2::field::extension::quadratic::QuadraticExtension;
use plonky2::field::extension::quartic::QuarticExtension;
use plonky2::field::extension::quintic::QuinticExtension;
use plonky2::field::extension::{Extendable, FieldExtension, Frobenius};
use plonky2::field::goldilocks_field::GoldilocksField as F;
use plonky2::field::ops::Square;
use plonky2::field::packable::Packable;
use plonky2::field::packed::PackedField;
use plonky2::field::types::{Field, Field64, PrimeField64};
use rand::Rng;
use rayon::prelude::*;
use serde_json::{json, Value};

use crate::gen::{self, EPS, P};
use crate::mon::{catch, msg_class, norm_loc, Run, Tier};
use crate::refmodel::*;

#[derive(Default)]
struct Acc {
    evals: u64,
    hits: BTreeMap<&'static str, u64>,
    fails: Vec<(String, Value)>,
}
impl Acc {
    fn hit(&mut self, k: &'static str) {
        *self.hits.entry(k).or_insert(0) += 1;
    }
    fn fail(&mut self, op: &str, detail: Value) {
        if self.fails.len() < 8 {
            self.fails.push((format!("field.{op}"), detail));
        }
    }
    fn merge(&mut self, o: Acc) {
        self.evals += o.evals;
        for (k, v) in o.hits {
            *self.hits.entry(k).or_insert(0) += v;
        }
        for f in o.fails {
            if self.fails.len() < 32 {
                self.fails.push(f);
            }
        }
    }
}

fn hx(x: u64) -> String {
    format!("0x{x:016x}")
}

/// Compare a field result against the reference residue.
macro_rules! chk {
    ($acc:expr, $op:expr, $got:expr, $want:expr, $($arg:expr),*) => {{
        $acc.evals += 1;
        match catch(|| $got) {
            Ok(g) => {
                let g: F = g;
                if g.to_canonical_u64() != $want || canon(g.0) != $want {
                    $acc.fail($op, json!({"op": $op, "args": [$(hx($arg)),*], "got": hx(g.0), "want": hx($want)}));
                }
            }
            Err(p) => {
                $acc.fail(
                    &format!("{}.panic@{}", $op, norm_loc(&p.loc)),
                    json!({"op": $op, "args": [$(hx($arg)),*], "panic": msg_class(&p.msg), "loc": norm_loc(&p.loc)}),
                );
            }
        }
    }};
}

fn scalar_ops(acc: &mut Acc, a: u64, b: u64, c: u64) {
    let (fa, fb, fc) = (F(a), F(b), F(c));
    // model-side classification of the rare branches
    {
        let (s, o1) = a.overflowing_add(b);
        if o1 {
            acc.hit("add.overflow");
            if s.overflowing_add(EPS).1 {
                acc.hit("add.double_overflow");
            }
        }
        let (d, u1) = a.overflowing_sub(b);
        if u1 {
            acc.hit("sub.underflow");
            if d < EPS {
                acc.hit("sub.double_underflow");
            }
        }
        let prod = (a as u128) * (b as u128);
        let (lo, hi) = (prod as u64, (prod >> 64) as u64);
        if lo < (hi >> 32) {
            acc.hit("reduce128.borrow");
        }
        if a >= P {
            acc.hit("noncanonical.lhs");
        }
        if b >= P {
            acc.hit("noncanonical.rhs");
        }
    }
    chk!(acc, "add", fa + fb, radd(a, b), a, b);
    chk!(acc, "sub", fa - fb, rsub(a, b), a, b);
    chk!(acc, "mul", fa * fb, rmul_raw(a, b), a, b);
    chk!(acc, "neg", -fa, rneg(a), a);
    chk!(acc, "square", fa.square(), rmul_raw(a, a), a);
    chk!(acc, "double", fa.double(), radd(a, a), a);
    chk!(acc, "cube", fa.cube(), rmul(rmul_raw(a, a), a), a);
    chk!(acc, "mul_acc", fa.multiply_accumulate(fb, fc), radd(a, rmul_raw(b, c)), a, b, c);
    chk!(acc, "add_assign", { let mut x = fa; x += fb; x }, radd(a, b), a, b);
    chk!(acc, "sub_assign", { let mut x = fa; x -= fb; x }, rsub(a, b), a, b);
    chk!(acc, "mul_assign", { let mut x = fa; x *= fb; x }, rmul_raw(a, b), a, b);
    let bc = canon(b);
    chk!(acc, "add_canonical_u64", unsafe { fa.add_canonical_u64(bc) }, radd(a, bc), a, bc);
    chk!(acc, "sub_canonical_u64", unsafe { fa.sub_canonical_u64(bc) }, rsub(a, bc), a, bc);
    chk!(acc, "to_canonical", fa.to_canonical(), canon(a), a);
    chk!(acc, "from_noncanonical_u64", F::from_noncanonical_u64(a), canon(a), a);
    chk!(acc, "from_noncanonical_i64", F::from_noncanonical_i64(a as i64), {
        let i = a as i64;
        if i < 0 { rsub(0, i.unsigned_abs()) } else { canon(i as u64) }
    }, a);
    let wide = ((a as u128) << 64) | b as u128;
    chk!(acc, "from_noncanonical_u128", F::from_noncanonical_u128(wide), rred128(wide), a, b);
    let hi32 = c as u32;
    let w96 = ((hi32 as u128) << 64) | a as u128;
    chk!(acc, "from_noncanonical_u96", F::from_noncanonical_u96((a, hi32)), rred128(w96), a, hi32 as u64);
    chk!(acc, "sum3", [fa, fb, fc].iter().copied().sum::<F>(), radd(radd(a, b), c), a, b, c);
    chk!(acc, "product3", [fa, fb, fc].iter().copied().product::<F>(), rmul(rmul_raw(a, b), c), a, b, c);
    // predicates on representations
    acc.evals += 1;
    if fa.is_zero() != (canon(a) == 0) || fa.is_one() != (canon(a) == 1) || ((fa == fb) != (canon(a) == canon(b))) {
        acc.fail("predicates", json!({"a": hx(a), "b": hx(b)}));
    }
    if fa.to_canonical_u64() != canon(a) || fa.to_noncanonical_u64() != a {
        acc.fail("to_canonical_u64", json!({"a": hx(a)}));
    }
}

fn slow_ops(acc: &mut Acc, a: u64, e: u64, k: usize) {
    let fa = F(a);
    acc.evals += 1;
    match catch(|| fa.try_inverse()) {
        Ok(None) => {
            if canon(a) != 0 {
                acc.fail("try_inverse", json!({"a": hx(a), "got": "None"}));
            }
        }
        Ok(Some(inv)) => {
            if canon(a) == 0 || Some(inv.to_canonical_u64()) != rinv(a) {
                acc.fail("try_inverse", json!({"a": hx(a), "got": hx(inv.0), "want": rinv(a).map(hx)}));
            }
        }
        Err(p) => acc.fail("try_inverse.panic", json!({"a": hx(a), "panic": p.msg})),
    }
    chk!(acc, "exp_u64", fa.exp_u64(e), rpow(a, e), a, e);
    let k6 = k % 70;
    chk!(acc, "exp_power_of_2", fa.exp_power_of_2(k6), {
        let mut x = canon(a);
        for _ in 0..k6 { x = rmul(x, x); }
        x
    }, a, k6 as u64);
    // exp_biguint with multi-limb exponents, incl. limbs that are exactly zero or all-ones:
    // x^(hi*2^128 + mid*2^64 + lo) against a square-and-multiply chain in the u128 model
    {
        let limb = |sel: usize, v: u64| -> u64 {
            match sel % 4 {
                0 => 0,
                1 => u64::MAX,
                2 => 1,
                _ => v,
            }
        };
        let (lo, mid, hi) = (limb(k, e), limb(k / 4, e.rotate_left(17)), limb(k / 16, e.rotate_left(41) | 1));
        let exponent = num::BigUint::from(lo) + (num::BigUint::from(mid) << 64) + (num::BigUint::from(hi) << 128);
        let p64 = |mut x: u64| {
            for _ in 0..64 {
                x = rmul(x, x);
            }
            x
        };
        let x64 = p64(canon(a));
        let x128 = p64(x64);
        let want = rmul(rmul(rpow(a, lo), rpow(x64, mid)), rpow(x128, hi));
        chk!(acc, "exp_biguint", fa.exp_biguint(&exponent), want, a, lo ^ mid ^ hi);
    }
    let kk = k % 200;
    chk!(acc, "inverse_2exp", F::inverse_2exp(kk), rinv(rpow(2, kk as u64)).unwrap(), kk as u64);
    if canon(a) != 0 {
        chk!(acc, "div", F(e) / fa, rmul(e, rinv(a).unwrap()), e, a);
    }
}

fn batch_inverse(acc: &mut Acc, xs: &[u64]) {
    let v: Vec<F> = xs.iter().map(|&x| F(x)).collect();
    acc.evals += 1;
    match catch(|| F::batch_multiplicative_inverse(&v)) {
        Ok(out) => {
            let ok = out.len() == xs.len()
                && out.iter().zip(xs).all(|(o, &x)| Some(o.to_canonical_u64()) == rinv(x));
            if !ok {
                acc.fail("batch_multiplicative_inverse", json!({"xs": xs.iter().map(|&x| hx(x)).collect::<Vec<_>>(), "got": out.iter().map(|o| hx(o.0)).collect::<Vec<_>>()}));
            }
        }
        Err(p) => acc.fail("batch_multiplicative_inverse.panic", json!({"len": xs.len(), "panic": p.msg, "loc": norm_loc(&p.loc)})),
    }
}

// ---- extensions --------------------------------------------------------------------------------

fn ext_to_vec<E: FieldExtension<D, BaseField = F>, const D: usize>(e: &E) -> Vec<u64> {
    e.to_basefield_array().iter().map(|x| x.to_canonical_u64()).collect()
}

fn ext_case<E, const D: usize>(acc: &mut Acc, name: &'static str, w: u64, a: &[u64], b: &[u64], s: u64, heavy: bool)
where
    E: FieldExtension<D, BaseField = F> + Field + Frobenius<D>,
{
    let mk = |v: &[u64]| {
        let mut arr = [F(0); D];
        for i in 0..D {
            arr[i] = F(v[i]);
        }
        E::from_basefield_array(arr)
    };
    let (ea, eb) = (mk(a), mk(b));
    let ca: Vec<u64> = a.iter().map(|&x| canon(x)).collect();
    let cb: Vec<u64> = b.iter().map(|&x| canon(x)).collect();
    macro_rules! echk {
        ($op:expr, $got:expr, $want:expr) => {{
            acc.evals += 1;
            match catch(|| $got) {
                Ok(g) => {
                    let gv = ext_to_vec::<E, D>(&g);
                    let want: Vec<u64> = $want;
                    if gv != want {
                        acc.fail(&format!("{name}.{}", $op), json!({"ext": name, "op": $op, "a": a.iter().map(|&x| hx(x)).collect::<Vec<_>>(), "b": b.iter().map(|&x| hx(x)).collect::<Vec<_>>(), "s": hx(s), "got": gv, "want": want}));
                    }
                }
                Err(p) => acc.fail(&format!("{name}.{}.panic@{}", $op, norm_loc(&p.loc)), json!({"ext": name, "op": $op, "a": a.iter().map(|&x| hx(x)).collect::<Vec<_>>(), "b": b.iter().map(|&x| hx(x)).collect::<Vec<_>>(), "panic": msg_class(&p.msg)})),
            }
        }};
    }
    echk!("add", ea + eb, ext_add(&ca, &cb));
    echk!("sub", ea - eb, ext_sub(&ca, &cb));
    echk!("neg", -ea, ext_sub(&vec![0; D], &ca));
    echk!("mul", ea * eb, ext_mul(&ca, &cb, w));
    echk!("square", ea.square(), ext_mul(&ca, &ca, w));
    echk!("mul_assign", { let mut x = ea; x *= eb; x }, ext_mul(&ca, &cb, w));
    echk!("scalar_mul", ea.scalar_mul(F(s)), ca.iter().map(|&x| rmul(x, s)).collect());
    echk!("from_basefield_mul", ea * E::from_basefield(F(s)), ca.iter().map(|&x| rmul(x, s)).collect());
    if heavy {
        // inverse
        acc.evals += 1;
        match catch(|| ea.try_inverse()) {
            Ok(None) => {
                if !ext_is_zero(&ca) {
                    acc.fail(&format!("{name}.try_inverse"), json!({"a": ca, "got": "None"}));
                }
            }
            Ok(Some(inv)) => {
                let iv = ext_to_vec::<E, D>(&inv);
                if ext_is_zero(&ca) || ext_mul(&iv, &ca, w) != ext_one(D) {
                    acc.fail(&format!("{name}.try_inverse"), json!({"a": ca, "got": iv}));
                }
            }
            Err(p) => acc.fail(&format!("{name}.try_inverse.panic"), json!({"a": ca, "panic": p.msg})),
        }
        echk!("frobenius", ea.frobenius(), ext_frobenius(&ca, w));
        for k in 0..=D + 1 {
            let mut want = ca.clone();
            for _ in 0..(k % D) {
                want = ext_frobenius(&want, w);
            }
            echk!("repeated_frobenius", ea.repeated_frobenius(k), want.clone());
        }
        echk!("exp_u64", ea.exp_u64(s), ext_pow_limbs(&ca, &[s], w));
        // batch inverse
        let xs: Vec<E> = (0..(s % 7) as usize + 1).map(|i| if i % 2 == 0 { ea + E::from_basefield(F(i as u64 + 1)) } else { eb + E::from_basefield(F(i as u64)) }).collect();
        if xs.iter().all(|x| !x.is_zero()) {
            acc.evals += 1;
            match catch(|| E::batch_multiplicative_inverse(&xs)) {
                Ok(out) => {
                    let ok = out.len() == xs.len() && out.iter().zip(&xs).all(|(o, x)| ext_mul(&ext_to_vec::<E, D>(o), &ext_to_vec::<E, D>(x), w) == ext_one(D));
                    if !ok {
                        acc.fail(&format!("{name}.batch_inverse"), json!({"a": ca, "b": cb, "n": xs.len()}));
                    }
                }
                Err(p) => acc.fail(&format!("{name}.batch_inverse.panic"), json!({"panic": p.msg})),
            }
        }
    }
}

fn ext_constants<const D: usize>(acc: &mut Acc, name: &'static str)
where
    F: Extendable<D>,
    <F as Extendable<D>>::Extension: FieldExtension<D, BaseField = F> + Frobenius<D>,
{
    type E<const D: usize> = <F as Extendable<D>>::Extension;
    let w = <F as Extendable<D>>::W.to_canonical_u64();
    // DTH_ROOT == W^((p-1)/D)
    acc.evals += 1;
    if <F as Extendable<D>>::DTH_ROOT.to_canonical_u64() != rpow(w, (P - 1) / D as u64) {
        acc.fail(&format!("{name}.DTH_ROOT"), json!({"w": w}));
    }
    // X^D - W irreducible for prime D / D=4 : W is not a D-th power / square (necessary conditions checked)
    acc.evals += 1;
    if rpow(w, (P - 1) / 2) == 1 && D % 2 == 0 {
        acc.fail(&format!("{name}.W_is_square"), json!({"w": w}));
    }
    if D == 5 && rpow(w, (P - 1) / 5) == 1 {
        acc.fail(&format!("{name}.W_is_fifth_power"), json!({"w": w}));
    }
    // generator constants
    let two_adicity = <E<D> as Field>::TWO_ADICITY;
    let g2: Vec<u64> = <F as Extendable<D>>::EXT_POWER_OF_TWO_GENERATOR.iter().map(|x| x.to_canonical_u64()).collect();
    let mut x = g2.clone();
    for _ in 0..two_adicity - 1 {
        x = ext_mul(&x, &x, w);
    }
    acc.evals += 1;
    let minus_one: Vec<u64> = {
        let mut v = vec![0; D];
        v[0] = P - 1;
        v
    };
    if x != minus_one {
        acc.fail(&format!("{name}.EXT_POWER_OF_TWO_GENERATOR.order"), json!({"g": g2, "two_adicity": two_adicity}));
    }
    // coherent with base field: g2^(2^(adicity-32)) == POWER_OF_TWO_GENERATOR
    let mut y = g2.clone();
    for _ in 0..two_adicity - 32 {
        y = ext_mul(&y, &y, w);
    }
    acc.evals += 1;
    let mut base = vec![0; D];
    base[0] = POW2_GEN;
    if y != base {
        acc.fail(&format!("{name}.EXT_POWER_OF_TWO_GENERATOR.coherence"), json!({"g": g2}));
    }
    // multiplicative generator ^ ((p^D - 1) >> adicity) == power-of-two generator
    let g: Vec<u64> = <F as Extendable<D>>::EXT_MULTIPLICATIVE_GROUP_GENERATOR.iter().map(|x| x.to_canonical_u64()).collect();
    let pd = BigUint::from(P).pow(D as u32) - BigUint::from(1u32);
    acc.evals += 1;
    if (&pd >> two_adicity) << two_adicity != pd || ((&pd >> two_adicity) & BigUint::from(1u32)) != BigUint::from(1u32) {
        acc.fail(&format!("{name}.TWO_ADICITY"), json!({"two_adicity": two_adicity}));
    }
    let e = (&pd >> two_adicity).to_u64_digits();
    acc.evals += 1;
    if ext_pow_limbs(&g, &e, w) != g2 {
        acc.fail(&format!("{name}.EXT_MULTIPLICATIVE_GROUP_GENERATOR"), json!({"g": g}));
    }
    // generator is not a q-th power for the small prime factors of p^D-1 we can find by trial division
    let mut rest = pd.clone();
    let mut small_primes = vec![];
    for q in 2u32..5000 {
        let bq = BigUint::from(q);
        if (&rest % &bq) == BigUint::from(0u32) {
            small_primes.push(q);
            while (&rest % &bq) == BigUint::from(0u32) {
                rest /= &bq;
            }
        }
    }
    let mut qth_powers = vec![];
    for q in small_primes.iter().copied() {
        let e = (&pd / BigUint::from(q)).to_u64_digits();
        acc.evals += 1;
        if ext_pow_limbs(&g, &e, w) == ext_one(D) {
            qth_powers.push(q);
        }
    }
    if !qth_powers.is_empty() {
        acc.fail(
            &format!("{name}.EXT_MULTIPLICATIVE_GROUP_GENERATOR.is_qth_power{qth_powers:?}"),
            json!({"generator": g, "W": w, "D": D, "qth_power_for_prime_divisors_of_group_order": qth_powers,
                   "explanation": "g^((p^D-1)/q) == 1 for these primes q | p^D-1, so g does not generate the multiplicative group although the constant is documented as 'generator of the entire multiplicative group'",
                   "small_prime_divisors_tested": small_primes}),
        );
    }
    // library-side consistency of the same constants
    acc.evals += 1;
    let lib_g2 = <E<D> as Field>::POWER_OF_TWO_GENERATOR;
    if ext_to_vec::<E<D>, D>(&lib_g2) != g2 {
        acc.fail(&format!("{name}.POWER_OF_TWO_GENERATOR.mismatch"), json!({}));
    }
    let lib_g = <E<D> as Field>::MULTIPLICATIVE_GROUP_GENERATOR;
    if ext_to_vec::<E<D>, D>(&lib_g) != g {
        acc.fail(&format!("{name}.MULTIPLICATIVE_GROUP_GENERATOR.mismatch"), json!({}));
    }
}

// ---- packed ------------------------------------------------------------------------------------

fn packed_case<PF: PackedField<Scalar = F>>(acc: &mut Acc, a: &[u64], b: &[u64], s: u64) {
    let w = PF::WIDTH;
    let fa: Vec<F> = a.iter().map(|&x| F(x)).collect();
    let fb: Vec<F> = b.iter().map(|&x| F(x)).collect();
    let pa = *PF::from_slice(&fa);
    let pb = *PF::from_slice(&fb);
    let fs = F(s);
    macro_rules! pchk {
        ($op:expr, $got:expr, $lane:expr) => {{
            acc.evals += 1;
            match catch(|| $got) {
                Ok(g) => {
                    let g: PF = g;
                    let lanes: Vec<u64> = g.as_slice().iter().map(|x| x.to_canonical_u64()).collect();
                    let want: Vec<u64> = (0..w).map($lane).collect();
                    if lanes != want {
                        acc.fail(&format!("packed{w}.{}", $op), json!({"op": $op, "width": w, "a": a.iter().map(|&x| hx(x)).collect::<Vec<_>>(), "b": b.iter().map(|&x| hx(x)).collect::<Vec<_>>(), "s": hx(s), "got": lanes, "want": want}));
                    }
                }
                Err(p) => acc.fail(&format!("packed{w}.{}.panic@{}", $op, norm_loc(&p.loc)), json!({"op": $op, "a": a.iter().map(|&x| hx(x)).collect::<Vec<_>>(), "b": b.iter().map(|&x| hx(x)).collect::<Vec<_>>(), "panic": msg_class(&p.msg)})),
            }
        }};
    }
    pchk!("add", pa + pb, |i| radd(a[i], b[i]));
    pchk!("sub", pa - pb, |i| rsub(a[i], b[i]));
    pchk!("mul", pa * pb, |i| rmul_raw(a[i], b[i]));
    pchk!("neg", -pa, |i| rneg(a[i]));
    pchk!("square", pa.square(), |i| rmul_raw(a[i], a[i]));
    pchk!("doubles", pa.doubles(), |i| radd(a[i], a[i]));
    pchk!("add_scalar", pa + fs, |i| radd(a[i], s));
    pchk!("sub_scalar", pa - fs, |i| rsub(a[i], s));
    pchk!("mul_scalar", pa * fs, |i| rmul_raw(a[i], s));
    pchk!("add_assign", { let mut x = pa; x += pb; x }, |i| radd(a[i], b[i]));
    pchk!("sub_assign", { let mut x = pa; x -= pb; x }, |i| rsub(a[i], b[i]));
    pchk!("mul_assign", { let mut x = pa; x *= pb; x }, |i| rmul_raw(a[i], b[i]));
    pchk!("add_assign_scalar", { let mut x = pa; x += fs; x }, |i| radd(a[i], s));
    pchk!("sub_assign_scalar", { let mut x = pa; x -= fs; x }, |i| rsub(a[i], s));
    pchk!("mul_assign_scalar", { let mut x = pa; x *= fs; x }, |i| rmul_raw(a[i], s));
    pchk!("from_scalar", PF::from(fs), |_| canon(s));
    if canon(s) != 0 {
        pchk!("div_scalar", pa / fs, |i| rmul(a[i], rinv(s).unwrap()));
    }
    pchk!("sum", [pa, pb, pa].iter().copied().sum::<PF>(), |i| radd(radd(a[i], b[i]), a[i]));
    pchk!("product", [pa, pb, pa].iter().copied().product::<PF>(), |i| rmul(rmul_raw(a[i], b[i]), a[i]));
    // interleave against its definition
    let mut bl = 1;
    while bl <= w {
        acc.evals += 1;
        match catch(|| pa.interleave(pb, bl)) {
            Ok((x, y)) => {
                let mut wx = vec![0u64; w];
                let mut wy = vec![0u64; w];
                if bl == w {
                    wx = a.iter().map(|&v| canon(v)).collect();
                    wy = b.iter().map(|&v| canon(v)).collect();
                } else {
                    // blocks of bl: stack a over b, transpose 2x2 block matrices
                    for blk in 0..(w / bl) {
                        for j in 0..bl {
                            let pos = blk * bl + j;
                            if blk % 2 == 0 {
                                wx[pos] = canon(a[pos]);
                                wx[pos + bl] = canon(b[pos]);
                            } else {
                                wy[pos - bl] = canon(a[pos]);
                                wy[pos] = canon(b[pos]);
                            }
                        }
                    }
                }
                let gx: Vec<u64> = x.as_slice().iter().map(|v| v.to_canonical_u64()).collect();
                let gy: Vec<u64> = y.as_slice().iter().map(|v| v.to_canonical_u64()).collect();
                if gx != wx || gy != wy {
                    acc.fail(&format!("packed{w}.interleave{bl}"), json!({"block_len": bl, "a": a, "b": b, "got": [gx, gy], "want": [wx, wy]}));
                }
            }
            Err(p) => {
                if w > 1 {
                    acc.fail(&format!("packed{w}.interleave{bl}.panic"), json!({"panic": p.msg}));
                }
            }
        }
        bl *= 2;
    }
}

fn batch_inplace(acc: &mut Acc, a: &[u64], b: &[u64]) {
    let fa: Vec<F> = a.iter().map(|&x| F(x)).collect();
    let fb: Vec<F> = b.iter().map(|&x| F(x)).collect();
    acc.evals += 2;
    let mut m = fa.clone();
    let r1 = catch(|| batch_multiply_inplace(&mut m, &fb));
    let mut s = fa.clone();
    let r2 = catch(|| batch_add_inplace(&mut s, &fb));
    if r1.is_err() || r2.is_err() {
        acc.fail("batch_inplace.panic", json!({"len": a.len()}));
        return;
    }
    for i in 0..a.len() {
        if m[i].to_canonical_u64() != rmul_raw(a[i], b[i]) {
            acc.fail("batch_multiply_inplace", json!({"len": a.len(), "i": i, "a": hx(a[i]), "b": hx(b[i]), "got": hx(m[i].0)}));
            break;
        }
        if s[i].to_canonical_u64() != radd(a[i], b[i]) {
            acc.fail("batch_add_inplace", json!({"len": a.len(), "i": i, "a": hx(a[i]), "b": hx(b[i]), "got": hx(s[i].0)}));
            break;
        }
    }
}

pub fn run(tier: Tier) -> ! {
    let mut run = Run::new("C14", "exploration", tier);
    run.rule("operand tuples = all pairs of the boundary set B (exhaustive) + seeded structured-random tuples biased to the non-canonical band and word boundaries; each tuple is fed to every scalar op / reduction / extension op / packed lane op and compared with u128 (schoolbook for extensions) arithmetic; distinct_nontrivial counts distinct operand tuples that hit at least one rare path according to the model (carry, double overflow/underflow, reduce128 borrow, non-canonical operand)");
    run.assume("reference = Rust u128 `%` arithmetic and schoolbook polynomial products written in the harness");
    let bset = gen::boundary_set();
    let bh0 = plonky2_util::verif_hooks::BRANCH_HINTS.load(Ordering::Relaxed);
    let mut total = Acc::default();

    // Phase 1: exhaustive boundary pairs (third operand cycles through B).
    let nb = bset.len();
    let micro = run.micro();
    // (micro tier: a 1/stride^2 lattice of the boundary pairs)
    let stride = if micro { (nb / 9).max(1) } else { 1 };
    let accs: Vec<Acc> = (0..nb)
        .into_par_iter()
        .filter(|i| i % stride == 0)
        .map(|i| {
            let mut acc = Acc::default();
            for j in (0..nb).filter(|j| (j + i / stride) % stride == 0) {
                let c = bset[(i * 7 + j * 13) % nb];
                scalar_ops(&mut acc, bset[i], bset[j], c);
            }
            acc
        })
        .collect();
    let mut nontrivial_keys: u64 = 0;
    for a in accs {
        total.merge(a);
    }
    run.count("boundary_pairs_exhaustive", (nb * nb) as u64);
    run.set_extra("boundary_set_size", json!(nb));
    let bh1 = plonky2_util::verif_hooks::BRANCH_HINTS.load(Ordering::Relaxed);

    // Phase 2: structured-random tuples.
    let n_random: u64 = run.n(160, 20_000_000, 400_000_000);
    let chunk: u64 = if micro { 40 } else { 50_000 };
    let seed = run.seed;
    let accs: Vec<(Acc, u64)> = (0..n_random / chunk)
        .into_par_iter()
        .map(|ci| {
            let mut rng = crate::mon::case_rng(seed, 14_001, ci);
            let mut acc = Acc::default();
            let mut nontriv = 0u64;
            for _ in 0..chunk {
                let a = gen::raw_u64(&mut rng, &bset);
                let b = gen::raw_u64(&mut rng, &bset);
                let c = gen::raw_u64(&mut rng, &bset);
                let before: u64 = acc.hits.values().sum();
                scalar_ops(&mut acc, a, b, c);
                if acc.hits.values().sum::<u64>() > before {
                    nontriv += 1;
                }
            }
            (acc, nontriv)
        })
        .collect();
    for (a, n) in accs {
        total.merge(a);
        nontrivial_keys += n;
    }
    run.count("random_tuples", n_random);

    // Phase 2b: targeted double-overflow / double-underflow / borrow operands (dense).
    {
        let mut rng = run.rng(14_002, 0);
        let mut acc = Acc::default();
        for _ in 0..run.n(40, 200_000, 5_000_000) {
            // a + b with both in [2^64 - 2^32, 2^64): double overflow iff low words sum past 2^32
            let a = u64::MAX - rng.gen_range(0..=EPS);
            let b = u64::MAX - rng.gen_range(0..=EPS);
            // sub: a' small (< EPS), b' > P
            let a2 = rng.gen_range(0..EPS + 2);
            let b2 = P.wrapping_add(rng.gen_range(0..EPS));
            // mul with hi_hi > lo : x = small * something giving tiny low word
            let c = (rng.gen_range(1..=EPS) << 32) | rng.gen_range(0..4);
            scalar_ops(&mut acc, a, b, c);
            scalar_ops(&mut acc, a2, b2, c);
            scalar_ops(&mut acc, c, u64::MAX - rng.gen_range(0..4u64), a);
            nontrivial_keys += 3;
        }
        total.merge(acc);
    }
    let bh2 = plonky2_util::verif_hooks::BRANCH_HINTS.load(Ordering::Relaxed);

    // Phase 3: inverse / exp.
    {
        let n = run.n(32, 20_000, 1_000_000);
        let accs: Vec<Acc> = (0..16u64)
            .into_par_iter()
            .map(|t| {
                let mut rng = crate::mon::case_rng(seed, 14_003, t);
                let mut acc = Acc::default();
                for i in 0..n / 16 {
                    let a = if (i as usize) < bset.len() && t == 0 { bset[i as usize] } else { gen::raw_u64(&mut rng, &bset) };
                    let e = gen::raw_u64(&mut rng, &bset);
                    slow_ops(&mut acc, a, e, rng.gen_range(0..256));
                }
                acc
            })
            .collect();
        for a in accs {
            total.merge(a);
        }
        run.count("inverse_exp_cases", n);
        // batch inverse: lengths 0..=9 and around multiples of 4, 16
        let mut rng = run.rng(14_004, 0);
        let mut acc = Acc::default();
        let mut lens: Vec<usize> = (0..=18).collect();
        lens.extend([31, 32, 33, 63, 64, 65, 100, 257]);
        if micro {
            lens.retain(|&l| l <= 9 || l == 16 || l == 17 || l == 33);
        }
        for rep in 0..run.n(1, 30, 600) {
            for &l in &lens {
                let xs: Vec<u64> = (0..l)
                    .map(|_| loop {
                        let x = gen::raw_u64(&mut rng, &bset);
                        if canon(x) != 0 {
                            break x;
                        }
                    })
                    .collect();
                batch_inverse(&mut acc, &xs);
                let ys: Vec<u64> = (0..l).map(|_| gen::raw_u64(&mut rng, &bset)).collect();
                batch_inplace(&mut acc, &xs, &ys);
                let _ = rep;
            }
        }
        run.count("batch_inverse_lengths", lens.len() as u64);
        total.merge(acc);
    }

    // Phase 4: extensions.
    {
        let mut acc = Acc::default();
        if !micro {
            // (order computations by square-and-multiply over 128..320-bit exponents: native tiers only)
            ext_constants::<2>(&mut acc, "quadratic");
            ext_constants::<4>(&mut acc, "quartic");
            ext_constants::<5>(&mut acc, "quintic");
        }
        total.merge(acc);
        let n = run.n(48, 60_000, 3_000_000);
        let heavy_every = if micro { 3 } else { 50u64 };
        let accs: Vec<Acc> = (0..16u64)
            .into_par_iter()
            .map(|t| {
                let mut rng = crate::mon::case_rng(seed, 14_005, t);
                let mut acc = Acc::default();
                for i in 0..n / 16 {
                    let lanes = |rng: &mut rand_chacha::ChaCha8Rng, d: usize| -> Vec<u64> {
                        let mode = rng.gen_range(0..6);
                        (0..d)
                            .map(|_| match mode {
                                0 => u64::MAX - rng.gen_range(0..3u64),
                                1 => [0, 1, P - 1, P, u64::MAX][rng.gen_range(0..5)],
                                _ => gen::raw_u64(rng, &bset),
                            })
                            .collect()
                    };
                    let heavy = i % heavy_every == 0;
                    let s = gen::raw_u64(&mut rng, &bset);
                    let (a, b) = (lanes(&mut rng, 2), lanes(&mut rng, 2));
                    ext_case::<QuadraticExtension<F>, 2>(&mut acc, "quadratic", 7, &a, &b, s, heavy);
                    let (a, b) = (lanes(&mut rng, 4), lanes(&mut rng, 4));
                    ext_case::<QuarticExtension<F>, 4>(&mut acc, "quartic", 7, &a, &b, s, heavy);
                    let (a, b) = (lanes(&mut rng, 5), lanes(&mut rng, 5));
                    ext_case::<QuinticExtension<F>, 5>(&mut acc, "quintic", 3, &a, &b, s, heavy);
                }
                acc
            })
            .collect();
        for a in accs {
            total.merge(a);
        }
        run.count("extension_cases_per_degree", n);
        nontrivial_keys += n;
    }

    // Phase 5: packed (this build's default packing) vs scalar model.
    {
        type PF = <F as Packable>::Packing;
        let w = <PF as PackedField>::WIDTH;
        run.set_extra("packing_width", json!(w));
        let n = run.n(64, 100_000, 5_000_000);
        let accs: Vec<Acc> = (0..16u64)
            .into_par_iter()
            .map(|t| {
                let mut rng = crate::mon::case_rng(seed, 14_006, t);
                let mut acc = Acc::default();
                for _ in 0..n / 16 {
                    let a: Vec<u64> = (0..w).map(|_| gen::raw_u64(&mut rng, &bset)).collect();
                    let b: Vec<u64> = (0..w).map(|_| gen::raw_u64(&mut rng, &bset)).collect();
                    let s = gen::raw_u64(&mut rng, &bset);
                    packed_case::<PF>(&mut acc, &a, &b, s);
                }
                acc
            })
            .collect();
        for a in accs {
            total.merge(a);
        }
        run.count("packed_cases", n);
    }

    // Assumption monitor.
    let bh3 = plonky2_util::verif_hooks::BRANCH_HINTS.load(Ordering::Relaxed);
    let false_assumes = plonky2_util::verif_hooks::FALSE_ASSUMES.load(Ordering::Relaxed);
    run.set_extra(
        "h1_branch_hint_executions",
        json!({"boundary_phase": bh1 - bh0, "random_and_targeted_phase": bh2 - bh1, "rest": bh3 - bh2}),
    );
    run.set_extra("h1_false_assumes", json!(false_assumes));
    run.set_extra("model_rare_path_hits", json!(total.hits));
    if false_assumes != 0 {
        run.violation("field.false_assume", 0, json!({"false_assumes": false_assumes}));
    }
    for k in ["add.double_overflow", "sub.double_underflow", "reduce128.borrow", "noncanonical.lhs"] {
        let need = if micro { 3 } else { 100 };
        if total.hits.get(k).copied().unwrap_or(0) < need {
            run.inconclusive(&format!("rare path {k} reached fewer than {need} times"));
        }
    }
    if bh3 - bh0 < if micro { 3 } else { 100 } {
        run.inconclusive("H1: branch_hint executions < 100 — rare branches not observed");
    }
    run.evals(total.evals);
    for (k, v) in total.hits.iter() {
        run.count(&format!("model.{k}"), *v);
    }
    // distinct non-trivial operand tuples: measured per tuple above (tuples hitting a rare path)
    run.nontrivial_bulk(nontrivial_keys);
    run.set_extra("nontrivial_tuples_measured", json!(nontrivial_keys));
    run.sample(json!({"op": "add", "a": hx(u64::MAX), "b": hx(u64::MAX), "model": hx(radd(u64::MAX, u64::MAX)), "note": "double overflow"}));
    run.sample(json!({"op": "sub", "a": hx(0), "b": hx(u64::MAX), "model": hx(rsub(0, u64::MAX)), "note": "double underflow"}));
    run.sample(json!({"boundary_set_head": bset.iter().take(12).map(|&x| hx(x)).collect::<Vec<_>>() }));
    for (sig, detail) in total.fails {
        run.violation(&sig, 0, detail);
    }
    if !Run::is_sub() {
        run.run_variants();
    }
    run.finish()
}
