//! STARK half of C04 (filled in together with the starky workloads).
use crate::mon::Run;

pub fn monitor_starks(_run: &mut Run) {}
