//! STARK part of C04: transcript dependency monitor over `StarkProofWithPublicInputs::get_challenges`.

use plonky2::field::goldilocks_field::GoldilocksField as F;
use plonky2::field::types::PrimeField64;
use plonky2::iop::challenger::Challenger;
use plonky2::plonk::config::{GenericConfig, PoseidonGoldilocksConfig};
use rand::Rng;
use serde_json::{json, Value};
use starky::config::StarkConfig;
use starky::proof::{StarkProofChallenges, StarkProofWithPublicInputs};

use crate::mon::{catch, Run};
use crate::props::c09::stark_prove;
use crate::stk::{self, GenStark, Generated, D};
use crate::tamper;

type C = PoseidonGoldilocksConfig;
type H = <C as GenericConfig<D>>::Hasher;

/// 0 lookup challenges, 1 alphas, 2 zeta, 3 fri_alpha, 4.. fri betas, pow response, query indices
fn groups(ch: &StarkProofChallenges<F, D>) -> Vec<Vec<u64>> {
    let mut g = vec![];
    g.push(ch.lookup_challenge_set.as_ref().map(|s| s.challenges.iter().flat_map(|c| [c.beta.to_canonical_u64(), c.gamma.to_canonical_u64()]).collect()).unwrap_or_default());
    g.push(ch.stark_alphas.iter().map(|x| x.to_canonical_u64()).collect());
    g.push(vec![ch.stark_zeta.0[0].to_canonical_u64(), ch.stark_zeta.0[1].to_canonical_u64()]);
    g.push(vec![ch.fri_challenges.fri_alpha.0[0].to_canonical_u64(), ch.fri_challenges.fri_alpha.0[1].to_canonical_u64()]);
    for b in &ch.fri_challenges.fri_betas {
        g.push(vec![b.0[0].to_canonical_u64(), b.0[1].to_canonical_u64()]);
    }
    g.push(vec![ch.fri_challenges.fri_pow_response.to_canonical_u64()]);
    g.push(ch.fri_challenges.fri_query_indices.iter().map(|x| *x as u64).collect());
    g
}

fn group_name(g: usize, n: usize) -> String {
    match g {
        0 => "lookup_challenges".into(),
        1 => "stark_alphas".into(),
        2 => "stark_zeta".into(),
        3 => "fri_alpha".into(),
        x if x == n - 1 => "query_indices".into(),
        x if x == n - 2 => "pow_response".into(),
        _ => "fri_beta".into(),
    }
}

fn first_dep(class: &str, cap_idx: usize, n_commit: usize) -> Option<usize> {
    match class {
        "statement" | "public_input" | "trace_cap" => Some(0),
        "auxiliary_polys_cap" => Some(1),
        "quotient_polys_cap" => Some(2),
        c if c.starts_with("openings.") => Some(3),
        "fri.commit_phase_cap" => Some(4 + cap_idx),
        "fri.final_poly" | "fri.pow_witness" => Some(4 + n_commit),
        _ => None,
    }
}

fn compare(run: &mut Run, pidx: u64, desc: &Value, base: &[Vec<u64>], new: &[Vec<u64>], dep: Option<usize>, what: &str, qi: bool) {
    let n = base.len();
    for g in 0..n.min(new.len()) {
        if base[g].is_empty() && new[g].is_empty() {
            continue;
        }
        let must = matches!(dep, Some(f) if g >= f);
        run.eval();
        if must {
            if g == n - 1 && !qi {
                continue;
            }
            run.count("stark.pairs.must_change", 1);
            if base[g] == new[g] {
                run.violation(&format!("stark.challenge_group_{}_unchanged_after_altering.{what}", group_name(g, n)), pidx, json!({"proof": desc, "component": what}));
            }
        } else {
            run.count("stark.pairs.must_not_change", 1);
            if base[g] != new[g] {
                run.violation(&format!("stark.challenge_group_{}_changed_by_later_or_unabsorbed.{what}", group_name(g, n)), pidx, json!({"proof": desc, "component": what}));
            }
        }
    }
}

fn monitor<const COLS: usize, const PIS: usize>(run: &mut Run, pidx: u64, lookups: bool) {
    let mut rng = crate::mon::case_rng(run.seed, 4_500, pidx);
    let degree = if lookups { 3 } else { [2usize, 3, 1][rng.gen_range(0..3)] };
    // (every fourth proof: a trace long enough that its own final polynomial is longer than the one of the
    // verifier circuit it is padded for)
    let force_shorter = pidx % 4 == 1;
    let log_n = if force_shorter { rng.gen_range(7..=8) } else { rng.gen_range(4..=7) };
    let Generated { spec, trace, pis } = if lookups { stk::gen_lookup_family(&mut rng, COLS, PIS, degree, log_n) } else { stk::gen_family(&mut rng, COLS, PIS, degree, log_n) };
    let mut config = stk::gen_stark_config(&mut rng, degree, true);
    config.fri_config.num_query_rounds = config.fri_config.num_query_rounds.max(8);
    let stark = GenStark::<COLS, PIS>::new(spec.clone());
    // every second proof is made for a verifier circuit sized for a longer trace (transcript padded to that
    // circuit's final-polynomial length, which may be longer or shorter than the proof's own)
    let vparams: Option<plonky2::fri::FriParams> = if pidx % 2 == 1 {
        // schedules that stop on the cap condition with exactly 2^(final_poly_bits+1) coefficients left
        // (what the prover's padded mode requires of the verifier circuit's parameters)
        let (a, fb, rate, cap) = [(1usize, 1usize, 1usize, 3usize), (2, 2, 1, 3), (2, 2, 1, 4), (1, 2, 2, 5), (2, 1, 2, 3), (4, 5, 1, 6)][if force_shorter { 5 } else { rng.gen_range(0..6) }];
        config.fri_config.rate_bits = rate;
        config.fri_config.cap_height = cap;
        config.fri_config.reduction_strategy = plonky2::fri::reduction_strategies::FriReductionStrategy::ConstantArityBits(a, fb);
        Some(config.fri_params(fb + 1 + a * if force_shorter { 1 } else { [0usize, 0, 1, 2, 3][rng.gen_range(0..5)] }))
    } else {
        None
    };
    let proved = if vparams.is_some() {
        let pv = stk::to_poly_values(&trace);
        let pif: Vec<F> = pis.iter().map(|x| F(*x)).collect();
        match catch(|| starky::prover::prove::<F, C, GenStark<COLS, PIS>, D>(stark.clone(), &config, pv, &pif, vparams.clone(), &mut plonky2::util::timing::TimingTree::default())) {
            Ok(Ok(p)) => Ok(p),
            Ok(Err(e)) => Err(format!("error: {e}")),
            Err(p) => Err(format!("panic: {}", p.msg)),
        }
    } else {
        stark_prove(&stark, &config, &trace, &pis)
    };
    let proof = match proved {
        Ok(p) => p,
        Err(e) => {
            run.count(&format!("stark.pool_member_not_built: {}", crate::mon::msg_class(&e).chars().take(50).collect::<String>()), 1);
            return;
        }
    };
    let chal = |p: &StarkProofWithPublicInputs<F, C, D>, cfg: &StarkConfig| -> Option<Vec<Vec<u64>>> {
        catch(|| {
            let mut ch = Challenger::<F, H>::new();
            p.get_challenges(&stark, &mut ch, None, None, false, cfg, vparams.clone())
        })
        .ok()
        .map(|c| groups(&c))
    };
    let base = match chal(&proof, &config) {
        Some(b) => b,
        None => {
            run.inconclusive("stark get_challenges failed on an honest proof");
            return;
        }
    };
    let n_commit = proof.proof.opening_proof.commit_phase_merkle_caps.len();
    let qi = log_n + config.fri_config.rate_bits >= 6;
    let desc = json!({"stark": spec.describe(), "log_n": log_n, "config": stk::describe_stark_config(&config), "commit_phase_caps": n_commit, "has_lookup_challenges": !base[0].is_empty()});
    run.sample(json!({"stark_transcript": desc}));
    run.count("stark.proofs", 1);
    if let Some(vp) = &vparams {
        let own = proof.proof.opening_proof.final_poly.len();
        run.count(if vp.final_poly_len() < own { "stark.proofs_padded_mode.circuit_final_poly_shorter" } else if vp.final_poly_len() > own { "stark.proofs_padded_mode.circuit_final_poly_longer" } else { "stark.proofs_padded_mode.same_length" }, 1);
    }
    let cap_sizes: Vec<usize> = proof.proof.opening_proof.commit_phase_merkle_caps.iter().map(|c| c.0.len()).collect();
    let mut commit_slot = 0usize;
    let n = tamper::count_stark_slots::<C>(&proof);
    for k in 0..n {
        let (q, class) = tamper::tamper_stark_at::<C>(&proof, k, (k % 2) as u8, rng.gen());
        let mut cap_idx = 0;
        if class == "fri.commit_phase_cap" {
            let mut acc = 0;
            for (ci, sz) in cap_sizes.iter().enumerate() {
                if commit_slot < acc + sz {
                    cap_idx = ci;
                    break;
                }
                acc += sz;
            }
            commit_slot += 1;
        }
        let dep = first_dep(class, cap_idx, n_commit);
        if dep.is_none() && k % 23 != 0 {
            continue;
        }
        run.nontrivial(("stark", pidx, class, cap_idx));
        run.count(&format!("stark.components.{class}"), 1);
        if let Some(new) = chal(&q, &config) {
            compare(run, pidx, &desc, &base, &new, dep, class, qi);
        }
    }
    let edits: Vec<(&str, Box<dyn Fn(&mut StarkConfig)>)> = vec![
        ("config.security_bits", Box::new(|c| c.security_bits += 1)),
        ("config.num_challenges", Box::new(|c| c.num_challenges += 1)),
        ("config.fri.rate_bits", Box::new(|c| c.fri_config.rate_bits += 1)),
        ("config.fri.cap_height", Box::new(|c| c.fri_config.cap_height += 1)),
        ("config.fri.proof_of_work_bits", Box::new(|c| c.fri_config.proof_of_work_bits += 1)),
        ("config.fri.num_query_rounds", Box::new(|c| c.fri_config.num_query_rounds += 1)),
        ("config.fri.reduction_strategy", Box::new(|c| c.fri_config.reduction_strategy = plonky2::fri::reduction_strategies::FriReductionStrategy::Fixed(vec![1, 1, 2]))),
    ];
    for (name, edit) in edits {
        let mut c2 = config.clone();
        edit(&mut c2);
        run.count("stark.components.config_field", 1);
        run.nontrivial(("stark", pidx, name));
        if let Some(new) = chal(&proof, &c2) {
            compare(run, pidx, &desc, &base, &new, Some(0), name, false);
        }
    }
}

pub fn monitor_starks(run: &mut Run) {
    let n: u64 = run.pick(16, 90);
    for i in 0..n {
        let pidx = 5_000 + i;
        if run.skip_case(pidx) {
            continue;
        }
        match i % 4 {
            0 => monitor::<3, 2>(run, pidx, false),
            1 => monitor::<6, 0>(run, pidx, true),
            2 => monitor::<8, 4>(run, pidx, false),
            _ => monitor::<9, 0>(run, pidx, true),
        }
    }
}
