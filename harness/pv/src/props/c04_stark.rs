//! STARK part of C04: transcript dependency monitor over `StarkProofWithPublicInputs::get_challenges`.

use plonky2::field::goldilocks_field::GoldilocksField as F;
use plonky2::field::types::PrimeField64;
use plonky2::iop::challenger::Challenger;
use plonky2::plonk::config::{GenericConfig, PoseidonGoldilocksConfig};
use rand::Rng;
use serde_json::{json, Value};
use starky::config::StarkConfig;
use starky::proof::{StarkProofChallenges, StarkProofWithPublicInputs};

use crate::mon::{catch, Run};
use crate::props::c09::stark_prove;
use crate::stk::{self, GenStark, Generated, D};
use crate::tamper;

type C = PoseidonGoldilocksConfig;
type H = <C as GenericConfig<D>>::Hasher;

/// 0 lookup challenges, 1 alphas, 2 zeta, 3 fri_alpha, 4.. fri betas, pow response, query indices
fn groups(ch: &StarkProofChallenges<F, D>) -> Vec<Vec<u64>> {
    let mut g = vec![];
    g.push(ch.lookup_challenge_set.as_ref().map(|s| s.challenges.iter().flat_map(|c| [c.beta.to_canonical_u64(), c.gamma.to_canonical_u64()]).collect()).unwrap_or_default());
    g.push(ch.stark_alphas.iter().map(|x| x.to_canonical_u64()).collect());
    g.push(vec![ch.stark_zeta.0[0].to_canonical_u64(), ch.stark_zeta.0[1].to_canonical_u64()]);
    g.push(vec![ch.fri_challenges.fri_alpha.0[0].to_canonical_u64(), ch.fri_challenges.fri_alpha.0[1].to_canonical_u64()]);
    for b in &ch.fri_challenges.fri_betas {
        g.push(vec![b.0[0].to_canonical_u64(), b.0[1].to_canonical_u64()]);
    }
    g.push(vec![ch.fri_challenges.fri_pow_response.to_canonical_u64()]);
    g.push(ch.fri_challenges.fri_query_indices.iter().map(|x| *x as u64).collect());
    g
}

fn group_name(g: usize, n: usize) -> String {
    match g {
        0 => "lookup_challenges".into(),
        1 => "stark_alphas".into(),
        2 => "stark_zeta".into(),
        3 => "fri_alpha".into(),
        x if x == n - 1 => "query_indices".into(),
        x if x == n - 2 => "pow_response".into(),
        _ => "fri_beta".into(),
    }
}

fn first_dep(class: &str, cap_idx: usize, n_commit: usize) -> Option<usize> {
    match class {
        "statement" | "public_input" | "trace_cap" => Some(0),
        "auxiliary_polys_cap" => Some(1),
        "quotient_polys_cap" => Some(2),
        c if c.starts_with("openings.") => Some(3),
        "fri.commit_phase_cap" => Some(4 + cap_idx),
        "fri.final_poly" | "fri.pow_witness" => Some(4 + n_commit),
        _ => None,
    }
}

fn compare(run: &mut Run, pidx: u64, desc: &Value, base: &[Vec<u64>], new: &[Vec<u64>], dep: Option<usize>, what: &str, qi: bool) {
    let n = base.len();
    for g in 0..n.min(new.len()) {
        if base[g].is_empty() && new[g].is_empty() {
            continue;
        }
        let must = matches!(dep, Some(f) if g >= f);
        run.eval();
        if must {
            if g == n - 1 && !qi {
                continue;
            }
            run.count("stark.pairs.must_change", 1);
            if base[g] == new[g] {
                run.violation(&format!("stark.challenge_group_{}_unchanged_after_altering.{what}", group_name(g, n)), pidx, json!({"proof": desc, "component": what}));
            }
        } else {
            run.count("stark.pairs.must_not_change", 1);
            if base[g] != new[g] {
                run.violation(&format!("stark.challenge_group_{}_changed_by_later_or_unabsorbed.{what}", group_name(g, n)), pidx, json!({"proof": desc, "component": what}));
            }
        }
    }
}

fn monitor<const COLS: usize, const PIS: usize>(run: &mut Run, pidx: u64, lookups: bool) {
    let mut rng = crate::mon::case_rng(run.seed, 4_500, pidx);
    let degree = if lookups { 3 } else { [2usize, 3, 1][rng.gen_range(0..3)] };
    let log_n = rng.gen_range(4..=7);
    let Generated { spec, trace, pis } = if lookups { stk::gen_lookup_family(&mut rng, COLS, PIS, degree, log_n) } else { stk::gen_family(&mut rng, COLS, PIS, degree, log_n) };
    let mut config = stk::gen_stark_config(&mut rng, degree, true);
    config.fri_config.num_query_rounds = config.fri_config.num_query_rounds.max(8);
    let stark = GenStark::<COLS, PIS>::new(spec.clone());
    let proof = match stark_prove(&stark, &config, &trace, &pis) {
        Ok(p) => p,
        Err(e) => {
            run.count(&format!("stark.pool_member_not_built: {}", crate::mon::msg_class(&e).chars().take(50).collect::<String>()), 1);
            return;
        }
    };
    let chal = |p: &StarkProofWithPublicInputs<F, C, D>, cfg: &StarkConfig| -> Option<Vec<Vec<u64>>> {
        catch(|| {
            let mut ch = Challenger::<F, H>::new();
            p.get_challenges(&stark, &mut ch, None, None, false, cfg, None)
        })
        .ok()
        .map(|c| groups(&c))
    };
    let base = match chal(&proof, &config) {
        Some(b) => b,
        None => {
            run.inconclusive("stark get_challenges failed on an honest proof");
            return;
        }
    };
    let n_commit = proof.proof.opening_proof.commit_phase_merkle_caps.len();
    let qi = log_n + config.fri_config.rate_bits >= 6;
    let desc = json!({"stark": spec.describe(), "log_n": log_n, "config": stk::describe_stark_config(&config), "commit_phase_caps": n_commit, "has_lookup_challenges": !base[0].is_empty()});
    run.sample(json!({"stark_transcript": desc}));
    run.count("stark.proofs", 1);
    let cap_sizes: Vec<usize> = proof.proof.opening_proof.commit_phase_merkle_caps.iter().map(|c| c.0.len()).collect();
    let mut commit_slot = 0usize;
    let n = tamper::count_stark_slots::<C>(&proof);
    for k in 0..n {
        let (q, class) = tamper::tamper_stark_at::<C>(&proof, k, (k % 2) as u8, rng.gen());
        let mut cap_idx = 0;
        if class == "fri.commit_phase_cap" {
            let mut acc = 0;
            for (ci, sz) in cap_sizes.iter().enumerate() {
                if commit_slot < acc + sz {
                    cap_idx = ci;
                    break;
                }
                acc += sz;
            }
            commit_slot += 1;
        }
        let dep = first_dep(class, cap_idx, n_commit);
        if dep.is_none() && k % 23 != 0 {
            continue;
        }
        run.nontrivial(("stark", pidx, class, cap_idx));
        run.count(&format!("stark.components.{class}"), 1);
        if let Some(new) = chal(&q, &config) {
            compare(run, pidx, &desc, &base, &new, dep, class, qi);
        }
    }
    let edits: Vec<(&str, Box<dyn Fn(&mut StarkConfig)>)> = vec![
        ("config.security_bits", Box::new(|c| c.security_bits += 1)),
        ("config.num_challenges", Box::new(|c| c.num_challenges += 1)),
        ("config.fri.rate_bits", Box::new(|c| c.fri_config.rate_bits += 1)),
        ("config.fri.cap_height", Box::new(|c| c.fri_config.cap_height += 1)),
        ("config.fri.proof_of_work_bits", Box::new(|c| c.fri_config.proof_of_work_bits += 1)),
        ("config.fri.num_query_rounds", Box::new(|c| c.fri_config.num_query_rounds += 1)),
        ("config.fri.reduction_strategy", Box::new(|c| c.fri_config.reduction_strategy = plonky2::fri::reduction_strategies::FriReductionStrategy::Fixed(vec![1, 1, 2]))),
    ];
    for (name, edit) in edits {
        let mut c2 = config.clone();
        edit(&mut c2);
        run.count("stark.components.config_field", 1);
        run.nontrivial(("stark", pidx, name));
        if let Some(new) = chal(&proof, &c2) {
            compare(run, pidx, &desc, &base, &new, Some(0), name, false);
        }
    }
}

pub fn monitor_starks(run: &mut Run) {
    let n: u64 = run.pick(8, 60);
    for i in 0..n {
        let pidx = 5_000 + i;
        if run.skip_case(pidx) {
            continue;
        }
        match i % 4 {
            0 => monitor::<3, 2>(run, pidx, false),
            1 => monitor::<6, 0>(run, pidx, true),
            2 => monitor::<8, 4>(run, pidx, false),
            _ => monitor::<9, 0>(run, pidx, true),
        }
    }
}
