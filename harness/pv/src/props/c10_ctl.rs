//! C10 part 2 — cross-table lookups through a multi-table driver built from the public pieces.

use std::collections::BTreeMap;

use hashbrown::HashMap;

use plonky2::field::extension::Extendable;
use plonky2::field::goldilocks_field::GoldilocksField as F;
use plonky2::field::polynomial::PolynomialValues;
use plonky2::field::types::Field;
use plonky2::fri::oracle::PolynomialBatch;
use plonky2::iop::challenger::Challenger;
use plonky2::plonk::config::{GenericConfig, PoseidonGoldilocksConfig};
use plonky2::util::timing::TimingTree;
use rand::Rng;
use rand_chacha::ChaCha8Rng;
use serde_json::{json, Value};
use starky::config::StarkConfig;
use starky::cross_table_lookup::{get_ctl_data, verify_cross_table_lookups, CrossTableLookup, CtlCheckVars, TableWithColumns};
use starky::lookup::{get_grand_product_challenge_set, Column, Filter, GrandProductChallengeSet};
use starky::proof::StarkProofWithPublicInputs;
use starky::prover::prove_with_commitment;
use starky::stark::Stark;
use starky::verif_hooks::{set_knobs, StarkProverKnobs};
use starky::verifier::verify_stark_proof_with_challenges;

use crate::gen;
use crate::mon::{catch, msg_class, norm_loc};
use crate::props::c09::{Acc, Out};
use crate::refmodel::{radd, rinv, rmul, rsub};
use crate::stk::{Cons, GenStark, Kind, Mono, Spec, Term, D, P};

type C = PoseidonGoldilocksConfig;
type H = <C as GenericConfig<D>>::Hasher;
const COLS: usize = 6;
type S = GenStark<COLS, 0>;

/// One side of a lookup: (table, tuple columns, filter column).
#[derive(Clone, Debug)]
struct Side {
    table: usize,
    cols: Vec<usize>,
    filter: usize,
}

#[derive(Clone, Debug)]
struct CtlSpec {
    looking: Vec<Side>,
    looked: Side,
}

struct System {
    n_tables: usize,
    traces: Vec<Vec<Vec<u64>>>, // [table][col][row]
    ctls: Vec<CtlSpec>,
    /// extra looking tuples per ctl (values not associated with any table)
    extras: Vec<Vec<Vec<u64>>>,
    spec: Spec,
}

fn neg(c: u64) -> u64 {
    (P - c % P) % P
}

fn table_spec() -> Spec {
    // columns 4 and 5 are boolean filter columns
    let mut spec = Spec { cols: COLS, pis: 0, degree: 3, ctl: true, name: "ctl_table".into(), ..Default::default() };
    for f in [4usize, 5] {
        spec.cons.push(Cons { kind: Kind::All, poly: vec![Mono { c: 1, f: vec![Term::L(f), Term::L(f)] }, Mono { c: neg(1), f: vec![Term::L(f)] }], what: format!("local[{f}] boolean (CTL filter)") });
    }
    spec
}

/// Multiset oracle: for each lookup, filtered looking tuples (+ extras) == filtered looked tuples.
fn ctl_holds(sys: &System) -> Vec<String> {
    let mut out = vec![];
    for (i, ctl) in sys.ctls.iter().enumerate() {
        let collect = |side: &Side| -> Vec<Vec<u64>> {
            let t = &sys.traces[side.table];
            let n = t[0].len();
            let mut v = vec![];
            for r in 0..n {
                let f = t[side.filter][r] % P;
                // boolean filters are enforced by the tables' own constraints; weight = filter value
                for _ in 0..f.min(4) {
                    v.push(side.cols.iter().map(|c| t[*c][r] % P).collect());
                }
            }
            v
        };
        let mut looking: Vec<Vec<u64>> = ctl.looking.iter().flat_map(&collect).collect();
        looking.extend(sys.extras[i].iter().cloned());
        let mut looked = collect(&ctl.looked);
        looking.sort();
        looked.sort();
        if looking != looked {
            out.push(format!("ctl {i}: {} looking tuples vs {} looked tuples differ as multisets", looking.len(), looked.len()));
        }
    }
    out
}

fn rows_ok(sys: &System) -> bool {
    sys.traces.iter().all(|t| sys.spec.check_trace(t, &[]).is_empty())
}

fn gen_system(rng: &mut ChaCha8Rng, quick: bool) -> System {
    let bset = gen::boundary_set();
    let n_tables = rng.gen_range(2..=3usize);
    let log_ns: Vec<usize> = (0..n_tables).map(|_| rng.gen_range(2..=if quick { 5 } else { 7 })).collect();
    let mut traces: Vec<Vec<Vec<u64>>> = log_ns.iter().map(|l| vec![vec![0u64; 1 << l]; COLS]).collect();
    // free data columns get arbitrary content first
    for t in traces.iter_mut() {
        for c in 0..4 {
            for x in t[c].iter_mut() {
                *x = gen::canon_u64(rng, &bset);
            }
        }
    }
    let looked_table = n_tables - 1;
    let n_ctls = rng.gen_range(1..=2usize);
    let mut ctls = vec![];
    let mut extras = vec![];
    for ci in 0..n_ctls {
        // lookup ci uses data columns (0,1) for ci = 0 and (2,3) for ci = 1, filter column 4 + ci
        let (c0, c1, f) = (2 * ci, 2 * ci + 1, 4 + ci);
        let width = if rng.gen_bool(0.7) { 2 } else { 1 };
        let cols: Vec<usize> = if width == 2 { vec![c0, c1] } else { vec![c0] };
        let mut looking: Vec<Side> = vec![];
        for t in 0..looked_table {
            // every table takes part in the first lookup (a table that requires CTLs but is in none is a
            // mis-specified system, not an input the property speaks about)
            if ci == 0 || rng.gen_bool(0.7) {
                looking.push(Side { table: t, cols: cols.clone(), filter: f });
            }
        }
        if looking.is_empty() {
            looking.push(Side { table: 0, cols: cols.clone(), filter: f });
        }
        if rng.gen_bool(0.3) {
            // the looked table also looks into itself with swapped columns? keep to distinct tables: repeat table 0
            // with the other filter when it is free (single-lookup systems only)
            if n_ctls == 1 {
                looking.push(Side { table: 0, cols: if width == 2 { vec![2, 3] } else { vec![2] }, filter: 5 });
                if rng.gen_bool(0.5) {
                    // a third entry of table 0: an odd number of entries leaves a partial helper batch
                    looking.push(Side { table: 0, cols: cols.clone(), filter: f });
                }
            }
        }
        let looked = Side { table: looked_table, cols: cols.clone(), filter: f };
        // decide active looking rows, then place the same tuples on looked rows
        let mut tuples: Vec<Vec<u64>> = vec![];
        for (si, s) in looking.iter().enumerate() {
            let n = traces[s.table][0].len();
            if looking[..si].iter().any(|p| p.table == s.table && p.filter == s.filter) {
                // the same entry listed again: every active row contributes its tuple once more
                for r in 0..n {
                    if traces[s.table][s.filter][r] == 1 {
                        tuples.push(s.cols.iter().map(|c| traces[s.table][*c][r]).collect());
                    }
                }
                continue;
            }
            for r in 0..n {
                let active = rng.gen_bool(0.4);
                traces[s.table][s.filter][r] = active as u64;
                if active {
                    // small value domain so that repeated tuples occur
                    let tup: Vec<u64> = s.cols.iter().map(|_| if rng.gen_bool(0.5) { rng.gen_range(0..4) } else { gen::canon_u64(rng, &bset) }).collect();
                    for (k, c) in s.cols.iter().enumerate() {
                        traces[s.table][*c][r] = tup[k];
                    }
                    tuples.push(tup);
                }
            }
        }
        let mut ex: Vec<Vec<u64>> = vec![];
        if rng.gen_bool(0.3) {
            for _ in 0..rng.gen_range(1..3) {
                let tup: Vec<u64> = cols.iter().map(|_| gen::canon_u64(rng, &bset)).collect();
                tuples.push(tup.clone());
                ex.push(tup);
            }
        }
        let n_looked = traces[looked_table][0].len();
        // not enough looked rows: deactivate looking rows until everything fits (tuples are recomputed
        // from the traces, since one filter cell may serve several entries of the same table)
        loop {
            tuples.clear();
            for s in looking.iter() {
                let n = traces[s.table][0].len();
                for r in 0..n {
                    if traces[s.table][s.filter][r] == 1 {
                        tuples.push(s.cols.iter().map(|c| traces[s.table][*c][r]).collect());
                    }
                }
            }
            tuples.extend(ex.iter().cloned());
            if tuples.len() <= n_looked {
                break;
            }
            let mut dropped = false;
            'outer: for s in looking.iter().rev() {
                let n = traces[s.table][0].len();
                for r in (0..n).rev() {
                    if traces[s.table][s.filter][r] == 1 {
                        traces[s.table][s.filter][r] = 0;
                        dropped = true;
                        break 'outer;
                    }
                }
            }
            if !dropped {
                ex.pop();
            }
        }
        // place tuples on random distinct looked rows
        let mut rows: Vec<usize> = (0..n_looked).collect();
        for i in (1..rows.len()).rev() {
            rows.swap(i, rng.gen_range(0..=i));
        }
        for r in 0..n_looked {
            traces[looked_table][f][r] = 0;
        }
        for (k, tup) in tuples.iter().enumerate() {
            let r = rows[k];
            traces[looked_table][f][r] = 1;
            for (j, c) in cols.iter().enumerate() {
                traces[looked_table][*c][r] = tup[j];
            }
        }
        ctls.push(CtlSpec { looking, looked });
        extras.push(ex);
    }
    // unused filter columns must still be boolean
    for t in traces.iter_mut() {
        for f in [4usize, 5] {
            for x in t[f].iter_mut() {
                if *x > 1 {
                    *x = 0;
                }
            }
        }
    }
    System { n_tables, traces, ctls, extras, spec: table_spec() }
}

fn side_twc(s: &Side) -> TableWithColumns<F> {
    TableWithColumns::new(s.table, s.cols.iter().map(|c| Column::single(*c)).collect(), Filter::new_simple(Column::single(s.filter)))
}

struct Proved {
    proofs: Vec<StarkProofWithPublicInputs<F, C, D>>,
}

fn start_challenger(caps: &[plonky2::hash::merkle_tree::MerkleCap<F, H>]) -> Challenger<F, H> {
    let mut ch = Challenger::<F, H>::new();
    for c in caps {
        ch.observe_cap::<H>(c);
    }
    ch
}

fn prove_system<const N: usize>(sys: &System, ctls: &[CrossTableLookup<F>], config: &StarkConfig, stark: &S) -> Result<Proved, String> {
    prove_system_aux::<N>(sys, &sys.traces, ctls, config, stark)
}

/// A prover that rewrites the running-sum column(s) of one looking table of one lookup: with
/// `close_the_gap` every value is shifted by the constant that makes the first-row opening match the
/// looked table's total (the transition constraint survives a constant shift, the last-row one does
/// not); without it the column is rewritten with the reference values themselves (control).
#[derive(Clone, Copy)]
struct ShiftPlan {
    table: usize,
    ctl: usize,
    close_the_gap: bool,
}

fn comb(vals: &[u64], beta: u64, gamma: u64) -> u64 {
    let mut c = 0u64;
    for t in vals.iter().rev() {
        c = radd(rmul(c, beta), *t);
    }
    radd(c, gamma)
}

/// Reference running sum of `sides` (all of one table): Z(last) = sum of terms(last), Z(r) = Z(r+1) + terms(r).
fn ref_z(sys: &System, sides: &[&Side], beta: u64, gamma: u64) -> Vec<u64> {
    let t = sides[0].table;
    let n = sys.traces[t][0].len();
    let mut z = vec![0u64; n];
    for r in (0..n).rev() {
        let mut term = 0u64;
        for s in sides {
            if sys.traces[t][s.filter][r] == 1 {
                let vals: Vec<u64> = s.cols.iter().map(|&c| sys.traces[t][c][r]).collect();
                term = radd(term, rinv(comb(&vals, beta, gamma)).unwrap_or(0));
            }
        }
        z[r] = radd(term, if r + 1 < n { z[r + 1] } else { 0 });
    }
    z
}

/// Auxiliary-polynomial edits (poly, row, value) realising `plan` for the given challenges.
fn shift_edits(sys: &System, ctls: &[CrossTableLookup<F>], config: &StarkConfig, stark: &S, chs: &GrandProductChallengeSet<F>, plan: ShiftPlan) -> Vec<(usize, usize, u64)> {
    use starky::stark::Stark;
    let mut edits = vec![];
    let (total_helpers, _nz, _by) = CrossTableLookup::num_ctl_helpers_zs_all(ctls, plan.table, config.num_challenges, stark.constraint_degree());
    let base = stark.num_lookup_helper_columns(config) + total_helpers;
    let extra = extra_sums(sys, chs);
    let mut cursor = vec![0usize; sys.n_tables];
    for (ci, ctl) in sys.ctls.iter().enumerate() {
        let mut distinct: Vec<usize> = vec![];
        for sd in ctl.looking.iter() {
            if !distinct.contains(&sd.table) {
                distinct.push(sd.table);
            }
        }
        for (c, ch) in chs.challenges.iter().enumerate() {
            let (beta, gamma) = (ch.beta.0 % P, ch.gamma.0 % P);
            let mut looking_sum = extra.get(&ci).map(|v| v[c].0 % P).unwrap_or(0);
            let mut target: Option<(usize, Vec<u64>)> = None;
            for &t in distinct.iter() {
                let sides: Vec<&Side> = ctl.looking.iter().filter(|sd| sd.table == t).collect();
                let z = ref_z(sys, &sides, beta, gamma);
                looking_sum = radd(looking_sum, z[0]);
                if ci == plan.ctl && t == plan.table {
                    target = Some((cursor[t], z));
                }
                cursor[t] += 1;
            }
            let looked = ref_z(sys, &[&ctl.looked], beta, gamma);
            cursor[ctl.looked.table] += 1;
            if let Some((zi, z)) = target {
                let delta = if plan.close_the_gap { rsub(looked[0], looking_sum) } else { 0 };
                for (r, v) in z.iter().enumerate() {
                    edits.push((base + zi, r, radd(*v, delta)));
                }
            }
        }
    }
    edits
}

fn prove_system_shifted<const N: usize>(sys: &System, ctls: &[CrossTableLookup<F>], config: &StarkConfig, stark: &S, plan: ShiftPlan) -> Result<Proved, String> {
    prove_system_full::<N>(sys, &sys.traces, ctls, config, stark, Some(plan))
}

/// `aux_traces`: the traces from which the cross-table running sums and helper columns are computed
/// (a deviating prover may keep those of another trace than the committed one).
fn prove_system_aux<const N: usize>(sys: &System, aux_traces: &[Vec<Vec<u64>>], ctls: &[CrossTableLookup<F>], config: &StarkConfig, stark: &S) -> Result<Proved, String> {
    prove_system_full::<N>(sys, aux_traces, ctls, config, stark, None)
}

fn prove_system_full<const N: usize>(sys: &System, aux_traces: &[Vec<Vec<u64>>], ctls: &[CrossTableLookup<F>], config: &StarkConfig, stark: &S, plan: Option<ShiftPlan>) -> Result<Proved, String> {
    let polys: Vec<Vec<PolynomialValues<F>>> = sys.traces.iter().map(|t| crate::stk::to_poly_values(t)).collect();
    let aux_polys: Vec<Vec<PolynomialValues<F>>> = aux_traces.iter().map(|t| crate::stk::to_poly_values(t)).collect();
    let arr: [Vec<PolynomialValues<F>>; N] = aux_polys.try_into().map_err(|_| "table count".to_string())?;
    let res = catch(|| {
        let commits: Vec<PolynomialBatch<F, C, D>> = polys.iter().map(|p| PolynomialBatch::<F, C, D>::from_values(p.clone(), config.fri_config.rate_bits, false, config.fri_config.cap_height, &mut TimingTree::default(), None)).collect();
        let caps: Vec<_> = commits.iter().map(|c| c.merkle_tree.cap.clone()).collect();
        let mut challenger = start_challenger(&caps);
        let (ctl_challenges, ctl_data) = get_ctl_data::<F, C, D, N>(config, &arr, ctls, &mut challenger, stark.constraint_degree());
        let mut proofs = vec![];
        for i in 0..N {
            let mut ch = challenger.clone();
            config.observe(&mut ch);
            let shifted = matches!(plan, Some(pl) if pl.table == i);
            if shifted {
                set_knobs(StarkProverKnobs { skip_constraint_check: true, lenient_truncation: true, aux_edits: shift_edits(sys, ctls, config, stark, &ctl_challenges, plan.unwrap()), ..Default::default() });
            }
            let p = prove_with_commitment::<F, C, S, D>(stark, config, &polys[i], &commits[i], Some(&ctl_data[i]), Some(&ctl_challenges), &mut ch, &[], None, None, &mut TimingTree::default());
            if shifted {
                set_knobs(StarkProverKnobs { skip_constraint_check: true, lenient_truncation: true, ..Default::default() });
            }
            proofs.push(p?);
        }
        Ok::<_, anyhow::Error>(proofs)
    });
    match res {
        Ok(Ok(proofs)) => Ok(Proved { proofs }),
        Ok(Err(e)) => Err(format!("error: {e}")),
        Err(p) => Err(format!("panic: {} @ {}", p.msg, norm_loc(&p.loc))),
    }
}

fn extra_sums(sys: &System, chs: &GrandProductChallengeSet<F>) -> HashMap<usize, Vec<F>> {
    let mut m = HashMap::new();
    for (i, ex) in sys.extras.iter().enumerate() {
        if ex.is_empty() {
            continue;
        }
        let mut v = vec![];
        for ch in chs.challenges.iter() {
            // sum over extra tuples of 1 / (sum_j t_j beta^j + gamma), in the reference arithmetic
            let (beta, gamma) = (ch.beta.0 % P, ch.gamma.0 % P);
            let mut acc = 0u64;
            for tup in ex {
                let mut comb = 0u64;
                for t in tup.iter().rev() {
                    comb = radd(rmul(comb, beta), *t);
                }
                comb = radd(comb, gamma);
                acc = radd(acc, rinv(comb).unwrap_or(0));
            }
            v.push(F(acc));
        }
        m.insert(i, v);
    }
    m
}

fn verify_system<const N: usize>(sys: &System, ctls: &[CrossTableLookup<F>], config: &StarkConfig, stark: &S, proofs: &[StarkProofWithPublicInputs<F, C, D>]) -> Result<(), String> {
    let res = catch(|| -> anyhow::Result<()> {
        let caps: Vec<_> = proofs.iter().map(|p| p.proof.trace_cap.clone()).collect();
        let mut challenger = start_challenger(&caps);
        let ctl_challenges = get_grand_product_challenge_set(&mut challenger, config.num_challenges);
        for i in 0..N {
            let (total_helpers, _num_zs, helpers_by_ctl) = CrossTableLookup::num_ctl_helpers_zs_all(ctls, i, config.num_challenges, stark.constraint_degree());
            let ctl_vars = CtlCheckVars::from_proof::<C>(i, &proofs[i].proof, ctls, &ctl_challenges, 0, total_helpers, &helpers_by_ctl);
            let mut ch = challenger.clone();
            let challenges = proofs[i].get_challenges(stark, &mut ch, Some(&ctl_challenges), Some(&ctl_vars), true, config, None);
            verify_stark_proof_with_challenges::<F, C, S, D>(stark, &proofs[i].proof, &challenges, Some(&ctl_vars), &proofs[i].public_inputs, config)?;
        }
        let firsts: Vec<Vec<F>> = proofs.iter().map(|p| p.proof.openings.ctl_zs_first.clone().unwrap_or_default()).collect();
        let arr: [Vec<F>; N] = firsts.try_into().map_err(|_| anyhow::anyhow!("table count"))?;
        verify_cross_table_lookups::<F, D, N>(ctls, arr, &extra_sums(sys, &ctl_challenges), config)
    });
    match res {
        Ok(Ok(())) => Ok(()),
        Ok(Err(e)) => Err(format!("Err({})", e.to_string().lines().next().unwrap_or(""))),
        Err(p) => Err(format!("panic@{}: {}", norm_loc(&p.loc), p.msg)),
    }
}

fn attempt<const N: usize>(sys: &System, ctls: &[CrossTableLookup<F>], config: &StarkConfig, stark: &S) -> (Out, Option<Proved>) {
    match prove_system::<N>(sys, ctls, config, stark) {
        Err(e) => (Out::Refused(e), None),
        Ok(p) => match verify_system::<N>(sys, ctls, config, stark, &p.proofs) {
            Ok(()) => (Out::Accepted, Some(p)),
            Err(e) => (Out::Rejected(e), Some(p)),
        },
    }
}

fn judge(acc: &mut Acc, class: &str, violating: bool, out: &Out, ctx: &Value, detail: Value) {
    acc.evals += 1;
    acc.m(&format!("ctl.{class}"), &out.label());
    let accepted = matches!(out, Out::Accepted);
    if violating && accepted {
        acc.fails.push((format!("ctl.accepted_although_multisets_differ.{class}"), json!({"ctx": ctx, "detail": detail})));
    }
    if !violating && !accepted {
        acc.fails.push((format!("ctl.rejected_although_multisets_agree.{class}: {}", out.label()), json!({"ctx": ctx, "detail": detail})));
    }
}

fn run_n<const N: usize>(mut sys: System, rng: &mut ChaCha8Rng, case: u64, quick: bool, acc: &mut Acc) {
    let stark = S::new(sys.spec.clone());
    let mut config = crate::stk::gen_stark_config(rng, 3, true);
    // the cap must fit the smallest table
    let min_log = sys.traces.iter().map(|t| t[0].len().trailing_zeros() as usize).min().unwrap();
    config.fri_config.cap_height = config.fri_config.cap_height.min(min_log);
    let ctls: Vec<CrossTableLookup<F>> = sys.ctls.iter().map(|c| CrossTableLookup::new(c.looking.iter().map(side_twc).collect(), side_twc(&c.looked))).collect();
    let ctx = json!({"case": case, "tables": N, "rows": sys.traces.iter().map(|t| t[0].len()).collect::<Vec<_>>(), "lookups": sys.ctls.iter().map(|c| json!({"looking_sides": c.looking.iter().map(|s| s.table).collect::<Vec<_>>(), "tuple_width": c.looked.cols.len()})).collect::<Vec<_>>(), "extra_looking_values": sys.extras.iter().map(|e| e.len()).collect::<Vec<_>>(), "config": crate::stk::describe_stark_config(&config)});
    acc.keys.push(format!("ctl|{ctx}"));
    let bad = ctl_holds(&sys);
    if !bad.is_empty() || !rows_ok(&sys) {
        acc.inconclusive.push(format!("harness: generated cross-table system violates its own multiset spec: {:?}", bad.first()));
        return;
    }
    set_knobs(StarkProverKnobs::default());
    let (out, proved) = attempt::<N>(&sys, &ctls, &config, &stark);
    match &out {
        Out::Refused(e) if crate::props::c09::is_stark_refusal(e) => {
            acc.c(&format!("ctl_config_refused: {}", msg_class(e).chars().take(60).collect::<String>()));
            return;
        }
        Out::Accepted => {
            acc.evals += 1;
            acc.c("ctl_positive_systems");
            acc.c(&format!("ctl_tables.{N}"));
            for c in sys.ctls.iter() {
                acc.c(&format!("ctl_looking_sides.{}", c.looking.len()));
                let mut ts: Vec<usize> = c.looking.iter().map(|s| s.table).collect();
                ts.sort();
                ts.dedup();
                if ts.len() < c.looking.len() {
                    acc.c("ctl_lookups_with_a_repeated_looking_table");
                }
            }
            if sys.extras.iter().any(|e| !e.is_empty()) {
                acc.c("ctl_systems_with_extra_looking_values");
            }
        }
        other => {
            acc.evals += 1;
            acc.fails.push((format!("ctl.rejected_although_multisets_agree.honest: {}", other.label()), json!({"ctx": ctx})));
            return;
        }
    }
    let proved = proved.unwrap();
    // control: rewriting a running-sum column with the harness's reference values changes nothing
    {
        let ci = rng.gen_range(0..sys.ctls.len());
        let t = sys.ctls[ci].looking[rng.gen_range(0..sys.ctls[ci].looking.len())].table;
        set_knobs(StarkProverKnobs { skip_constraint_check: true, lenient_truncation: true, ..Default::default() });
        let out = match prove_system_shifted::<N>(&sys, &ctls, &config, &stark, ShiftPlan { table: t, ctl: ci, close_the_gap: false }) {
            Err(e) => Out::Refused(e),
            Ok(p) => match verify_system::<N>(&sys, &ctls, &config, &stark, &p.proofs) {
                Ok(()) => Out::Accepted,
                Err(e) => Out::Rejected(e),
            },
        };
        set_knobs(StarkProverKnobs::default());
        acc.evals += 1;
        acc.m("ctl.control:running_sum_rewritten_with_reference_values", &out.label());
        if !matches!(out, Out::Accepted) {
            acc.inconclusive.push(format!("harness: reference running sum differs from the prover's ({})", out.label()));
            return;
        }
    }
    // ---- negatives on the traces ---------------------------------------------------------------
    set_knobs(StarkProverKnobs { skip_constraint_check: true, lenient_truncation: true, ..Default::default() });
    let reps = if quick { 1 } else { 2 };
    for _ in 0..reps {
        for ci in 0..sys.ctls.len() {
            let ctl = sys.ctls[ci].clone();
            let sides: Vec<(&str, Side)> = vec![("looking", if rng.gen_bool(0.5) { ctl.looking[ctl.looking.len() - 1].clone() } else { ctl.looking[rng.gen_range(0..ctl.looking.len())].clone() }), ("looked", ctl.looked.clone())];
            for (sname, side) in sides {
                let n = sys.traces[side.table][0].len();
                // altered value on an active row (if any), else on any row
                let active: Vec<usize> = (0..n).filter(|r| sys.traces[side.table][side.filter][*r] == 1).collect();
                let row = if active.is_empty() { rng.gen_range(0..n) } else { active[rng.gen_range(0..active.len())] };
                let col = side.cols[rng.gen_range(0..side.cols.len())];
                let old = sys.traces[side.table][col][row];
                sys.traces[side.table][col][row] = (old + 1 + rng.gen_range(0..5)) % P;
                let v = !ctl_holds(&sys).is_empty();
                let (out, _) = attempt::<N>(&sys, &ctls, &config, &stark);
                judge(acc, &format!("{sname}_value_altered{}", if v { "" } else { ":benign(inactive row)" }), v, &out, &ctx, json!({"ctl": ci, "table": side.table, "row": row, "column": col}));
                // the same alteration with the running sums / helper columns of the ORIGINAL traces
                if v {
                    let mut orig = sys.traces.clone();
                    orig[side.table][col][row] = old;
                    let out = match prove_system_aux::<N>(&sys, &orig, &ctls, &config, &stark) {
                        Err(e) => Out::Refused(e),
                        Ok(p) => match verify_system::<N>(&sys, &ctls, &config, &stark, &p.proofs) {
                            Ok(()) => Out::Accepted,
                            Err(e) => Out::Rejected(e),
                        },
                    };
                    judge(acc, &format!("{sname}_value_altered+running_sums_of_the_original_traces"), true, &out, &ctx, json!({"ctl": ci, "table": side.table, "row": row, "column": col, "entries_of_this_table": ctl.looking.iter().filter(|s| s.table == side.table).count()}));
                }
                // ... and with honest helper columns but the running sum of this table shifted by the
                // constant that closes the gap to the looked table's total
                if v && sname == "looking" {
                    let plan = ShiftPlan { table: side.table, ctl: ci, close_the_gap: true };
                    let out = match prove_system_shifted::<N>(&sys, &ctls, &config, &stark, plan) {
                        Err(e) => Out::Refused(e),
                        Ok(p) => match verify_system::<N>(&sys, &ctls, &config, &stark, &p.proofs) {
                            Ok(()) => Out::Accepted,
                            Err(e) => Out::Rejected(e),
                        },
                    };
                    judge(acc, "looking_value_altered+running_sum_shifted_by_a_constant", true, &out, &ctx, json!({"ctl": ci, "table": side.table, "row": row, "column": col, "entries_of_this_table": ctl.looking.iter().filter(|s| s.table == side.table).count()}));
                }
                sys.traces[side.table][col][row] = old;
                // filter flipped: one value more / one value less on this side
                let row = rng.gen_range(0..n);
                let oldf = sys.traces[side.table][side.filter][row];
                sys.traces[side.table][side.filter][row] = 1 - oldf;
                let v = !ctl_holds(&sys).is_empty();
                let (out, _) = attempt::<N>(&sys, &ctls, &config, &stark);
                judge(acc, &format!("{sname}_{}", if oldf == 1 { "value_removed(filter 1->0)" } else { "value_added(filter 0->1)" }), v, &out, &ctx, json!({"ctl": ci, "table": side.table, "row": row}));
                sys.traces[side.table][side.filter][row] = oldf;
            }
        }
        // an extra looking value withheld / invented
        if sys.extras.iter().any(|e| !e.is_empty()) {
            let i = sys.extras.iter().position(|e| !e.is_empty()).unwrap();
            let saved = sys.extras[i].clone();
            sys.extras[i].pop();
            let v = !ctl_holds(&sys).is_empty();
            let out = match verify_system::<N>(&sys, &ctls, &config, &stark, &proved.proofs) {
                Ok(()) => Out::Accepted,
                Err(e) => Out::Rejected(e),
            };
            judge(acc, "extra_looking_value_withheld", v, &out, &ctx, json!({"ctl": i}));
            sys.extras[i] = saved;
        }
    }
    set_knobs(StarkProverKnobs::default());
    // ---- first-row running-sum openings edited in accepted proofs --------------------------------
    for t in 0..N {
        let mut proofs = proved.proofs.clone();
        if let Some(v) = proofs[t].proof.openings.ctl_zs_first.as_mut() {
            if v.is_empty() {
                continue;
            }
            let k = rng.gen_range(0..v.len());
            v[k] += F::ONE;
            let out = match verify_system::<N>(&sys, &ctls, &config, &stark, &proofs) {
                Ok(()) => Out::Accepted,
                Err(e) => Out::Rejected(e),
            };
            judge(acc, "first_row_running_sum_opening_edited", true, &out, &ctx, json!({"table": t, "index": k}));
        }
    }
    // proof of one table replaced by the proof of another system's table is out of scope; swap two tables' proofs
    if N >= 2 {
        let mut proofs = proved.proofs.clone();
        proofs.swap(0, N - 1);
        let out = match verify_system::<N>(&sys, &ctls, &config, &stark, &proofs) {
            Ok(()) => Out::Accepted,
            Err(e) => Out::Rejected(e),
        };
        judge(acc, "table_proofs_swapped", true, &out, &ctx, json!({}));
    }
    if case % 25 == 4 {
        acc.sample = Some(json!({"part": "cross-table lookups", "ctx": ctx}));
    }
    let _ = <F as Extendable<D>>::Extension::ZERO;
}

pub fn case_ctl(seed: u64, case: u64, quick: bool) -> Acc {
    let mut acc = Acc::default();
    let mut rng = crate::mon::case_rng(seed, 10_002, case);
    let sys = gen_system(&mut rng, quick);
    match sys.n_tables {
        2 => run_n::<2>(sys, &mut rng, case, quick, &mut acc),
        _ => run_n::<3>(sys, &mut rng, case, quick, &mut acc),
    }
    let _: BTreeMap<u8, u8> = BTreeMap::new();
    acc
}
