//! Tamper catalogue: enumerates every field element / digest position of a proof and every list
//! in it, with replacement values and list operations.

use plonky2::field::extension::quadratic::QuadraticExtension;
use plonky2::field::goldilocks_field::GoldilocksField as F;
use plonky2::field::types::{Field, PrimeField64};
use plonky2::fri::proof::FriProof;
use plonky2::hash::hash_types::{BytesHash, HashOut};
use plonky2::plonk::config::{GenericConfig, Hasher};
use plonky2::plonk::proof::ProofWithPublicInputs;

pub type E = QuadraticExtension<F>;
const P: u64 = 0xFFFF_FFFF_0000_0001;

pub trait HashTamper: Copy + PartialEq {
    /// Changes the digest to a different valid digest value.
    fn bump(&mut self, mode: u8, r: u64);
}
impl HashTamper for HashOut<F> {
    fn bump(&mut self, mode: u8, r: u64) {
        let i = (r % 4) as usize;
        tamper_f(&mut self.elements[i], mode, r >> 2);
    }
}
impl<const N: usize> HashTamper for BytesHash<N> {
    fn bump(&mut self, mode: u8, r: u64) {
        let i = (r as usize) % N;
        match mode {
            0 => self.0[i] = self.0[i].wrapping_add(1),
            1 => self.0[i] ^= 1 << ((r >> 8) % 8),
            2 => self.0[i] = if self.0[i] == 0 { 1 } else { 0 },
            _ => self.0[i] = !self.0[i],
        }
    }
}

pub fn tamper_f(x: &mut F, mode: u8, r: u64) {
    let v = x.to_canonical_u64();
    let nv = match mode {
        0 => (v + 1) % P,
        1 => {
            let c = r % P;
            if c == v {
                (v + 1) % P
            } else {
                c
            }
        }
        2 => {
            if v == 0 {
                1
            } else {
                0
            }
        }
        3 => {
            if v == 0 {
                1
            } else {
                P - v
            }
        }
        _ => {
            if v == 0 {
                1
            } else {
                ((v as u128 * 2) % P as u128) as u64
            }
        }
    };
    *x = F(nv);
}

pub enum Slot<'a, HH> {
    F(&'a mut F),
    E(&'a mut E),
    H(&'a mut HH),
}

pub fn tamper_slot<HH: HashTamper>(s: Slot<HH>, mode: u8, r: u64) {
    match s {
        Slot::F(x) => tamper_f(x, mode, r),
        Slot::E(x) => tamper_f(&mut x.0[(r & 1) as usize], mode, r >> 1),
        Slot::H(h) => h.bump(mode, r),
    }
}

pub fn walk_fri<H: Hasher<F>>(p: &mut FriProof<F, H, 2>, f: &mut dyn FnMut(&'static str, Slot<H::Hash>))
where
    F: plonky2::hash::hash_types::RichField,
{
    for cap in p.commit_phase_merkle_caps.iter_mut() {
        for h in cap.0.iter_mut() {
            f("fri.commit_phase_cap", Slot::H(h));
        }
    }
    for q in p.query_round_proofs.iter_mut() {
        for (evals, mp) in q.initial_trees_proof.evals_proofs.iter_mut() {
            for x in evals.iter_mut() {
                f("fri.query.initial_leaf", Slot::F(x));
            }
            for h in mp.siblings.iter_mut() {
                f("fri.query.initial_sibling", Slot::H(h));
            }
        }
        for step in q.steps.iter_mut() {
            for x in step.evals.iter_mut() {
                f("fri.query.step_eval", Slot::E(x));
            }
            for h in step.merkle_proof.siblings.iter_mut() {
                f("fri.query.step_sibling", Slot::H(h));
            }
        }
    }
    for x in p.final_poly.coeffs.iter_mut() {
        f("fri.final_poly", Slot::E(x));
    }
    f("fri.pow_witness", Slot::F(&mut p.pow_witness));
}

pub fn walk_proof<C: GenericConfig<2, F = F>>(p: &mut ProofWithPublicInputs<F, C, 2>, f: &mut dyn FnMut(&'static str, Slot<<C::Hasher as Hasher<F>>::Hash>)) {
    for x in p.public_inputs.iter_mut() {
        f("public_input", Slot::F(x));
    }
    for h in p.proof.wires_cap.0.iter_mut() {
        f("wires_cap", Slot::H(h));
    }
    for h in p.proof.plonk_zs_partial_products_cap.0.iter_mut() {
        f("zs_partial_products_cap", Slot::H(h));
    }
    for h in p.proof.quotient_polys_cap.0.iter_mut() {
        f("quotient_polys_cap", Slot::H(h));
    }
    let o = &mut p.proof.openings;
    for (name, v) in [
        ("openings.constants", &mut o.constants),
        ("openings.plonk_sigmas", &mut o.plonk_sigmas),
        ("openings.wires", &mut o.wires),
        ("openings.plonk_zs", &mut o.plonk_zs),
        ("openings.plonk_zs_next", &mut o.plonk_zs_next),
        ("openings.partial_products", &mut o.partial_products),
        ("openings.quotient_polys", &mut o.quotient_polys),
        ("openings.lookup_zs", &mut o.lookup_zs),
        ("openings.lookup_zs_next", &mut o.lookup_zs_next),
    ] {
        for x in v.iter_mut() {
            f(name, Slot::E(x));
        }
    }
    walk_fri::<C::Hasher>(&mut p.proof.opening_proof, f);
}

pub fn count_slots<C: GenericConfig<2, F = F>>(p: &ProofWithPublicInputs<F, C, 2>) -> usize {
    let mut q = p.clone();
    let mut n = 0;
    walk_proof::<C>(&mut q, &mut |_, _| n += 1);
    n
}

/// Returns a copy of `p` with slot `k` tampered, and the slot's class.
pub fn tamper_at<C: GenericConfig<2, F = F>>(p: &ProofWithPublicInputs<F, C, 2>, k: usize, mode: u8, r: u64) -> (ProofWithPublicInputs<F, C, 2>, &'static str)
where
    <C::Hasher as Hasher<F>>::Hash: HashTamper,
{
    let mut q = p.clone();
    let mut i = 0usize;
    let mut class = "";
    walk_proof::<C>(&mut q, &mut |name, slot| {
        if i == k {
            class = name;
            tamper_slot(slot, mode, r);
        }
        i += 1;
    });
    (q, class)
}

// ---- list operations ---------------------------------------------------------------------------

#[derive(Clone, Copy, Debug, PartialEq, Eq)]
pub enum ListOp {
    DropLast,
    Empty,
    DupLast,
    /// truncate to half (non-power-of-two lengths arise for odd sizes)
    Halve,
    /// keep 3 entries (non-power-of-two) or append two copies when shorter
    ToThree,
}

pub fn vec_op<T: Clone>(v: &mut Vec<T>, op: ListOp) -> bool {
    match op {
        ListOp::DropLast => v.pop().is_some(),
        ListOp::Empty => {
            if v.is_empty() {
                false
            } else {
                v.clear();
                true
            }
        }
        ListOp::DupLast => match v.last().cloned() {
            Some(x) => {
                v.push(x);
                true
            }
            None => false,
        },
        ListOp::Halve => {
            if v.len() < 2 {
                false
            } else {
                v.truncate(v.len() / 2);
                true
            }
        }
        ListOp::ToThree => {
            if v.is_empty() || v.len() == 3 {
                return false;
            }
            while v.len() < 3 {
                let x = v.last().cloned().unwrap();
                v.push(x);
            }
            v.truncate(3);
            true
        }
    }
}

#[derive(Clone, Debug, PartialEq, Eq)]
pub enum ListSite {
    PublicInputs,
    WiresCap,
    ZsCap,
    QuotientCap,
    Opening(usize),
    CommitCaps,
    CommitCap(usize),
    QueryRounds,
    InitialProofs(usize),
    InitialLeaf(usize, usize),
    InitialSiblings(usize, usize),
    Steps(usize),
    StepEvals(usize, usize),
    StepSiblings(usize, usize),
    FinalPoly,
}

pub fn fri_list_sites<H: Hasher<F>>(p: &FriProof<F, H, 2>, max_queries: usize) -> Vec<ListSite> {
    let mut v = vec![ListSite::CommitCaps];
    for i in 0..p.commit_phase_merkle_caps.len() {
        v.push(ListSite::CommitCap(i));
    }
    v.push(ListSite::QueryRounds);
    let nq = p.query_round_proofs.len();
    let qs: Vec<usize> = if nq <= max_queries { (0..nq).collect() } else { (0..max_queries - 1).chain([nq - 1]).collect() };
    for q in qs {
        v.push(ListSite::InitialProofs(q));
        for o in 0..p.query_round_proofs[q].initial_trees_proof.evals_proofs.len() {
            v.push(ListSite::InitialLeaf(q, o));
            v.push(ListSite::InitialSiblings(q, o));
        }
        v.push(ListSite::Steps(q));
        for s in 0..p.query_round_proofs[q].steps.len() {
            v.push(ListSite::StepEvals(q, s));
            v.push(ListSite::StepSiblings(q, s));
        }
    }
    v.push(ListSite::FinalPoly);
    v
}

pub fn list_sites<C: GenericConfig<2, F = F>>(p: &ProofWithPublicInputs<F, C, 2>, max_queries: usize) -> Vec<ListSite> {
    let mut v = vec![ListSite::PublicInputs, ListSite::WiresCap, ListSite::ZsCap, ListSite::QuotientCap];
    for i in 0..9 {
        v.push(ListSite::Opening(i));
    }
    v.extend(fri_list_sites::<C::Hasher>(&p.proof.opening_proof, max_queries));
    v
}

pub fn apply_fri_list_op<H: Hasher<F>>(p: &mut FriProof<F, H, 2>, site: &ListSite, op: ListOp) -> bool {
    match site {
        ListSite::CommitCaps => vec_op(&mut p.commit_phase_merkle_caps, op),
        ListSite::CommitCap(i) => vec_op(&mut p.commit_phase_merkle_caps[*i].0, op),
        ListSite::QueryRounds => vec_op(&mut p.query_round_proofs, op),
        ListSite::InitialProofs(q) => vec_op(&mut p.query_round_proofs[*q].initial_trees_proof.evals_proofs, op),
        ListSite::InitialLeaf(q, o) => vec_op(&mut p.query_round_proofs[*q].initial_trees_proof.evals_proofs[*o].0, op),
        ListSite::InitialSiblings(q, o) => vec_op(&mut p.query_round_proofs[*q].initial_trees_proof.evals_proofs[*o].1.siblings, op),
        ListSite::Steps(q) => vec_op(&mut p.query_round_proofs[*q].steps, op),
        ListSite::StepEvals(q, s) => vec_op(&mut p.query_round_proofs[*q].steps[*s].evals, op),
        ListSite::StepSiblings(q, s) => vec_op(&mut p.query_round_proofs[*q].steps[*s].merkle_proof.siblings, op),
        ListSite::FinalPoly => vec_op(&mut p.final_poly.coeffs, op),
        _ => false,
    }
}

pub fn apply_list_op<C: GenericConfig<2, F = F>>(p: &mut ProofWithPublicInputs<F, C, 2>, site: &ListSite, op: ListOp) -> bool {
    let o = &mut p.proof.openings;
    match site {
        ListSite::PublicInputs => vec_op(&mut p.public_inputs, op),
        ListSite::WiresCap => vec_op(&mut p.proof.wires_cap.0, op),
        ListSite::ZsCap => vec_op(&mut p.proof.plonk_zs_partial_products_cap.0, op),
        ListSite::QuotientCap => vec_op(&mut p.proof.quotient_polys_cap.0, op),
        ListSite::Opening(i) => {
            let v = match i {
                0 => &mut o.constants,
                1 => &mut o.plonk_sigmas,
                2 => &mut o.wires,
                3 => &mut o.plonk_zs,
                4 => &mut o.plonk_zs_next,
                5 => &mut o.partial_products,
                6 => &mut o.quotient_polys,
                7 => &mut o.lookup_zs,
                _ => &mut o.lookup_zs_next,
            };
            vec_op(v, op)
        }
        other => apply_fri_list_op::<C::Hasher>(&mut p.proof.opening_proof, other, op),
    }
}

pub fn zero_ext() -> E {
    E::ZERO
}

// ---- compressed proofs -------------------------------------------------------------------------

use plonky2::plonk::proof::CompressedProofWithPublicInputs;

pub fn walk_compressed<C: GenericConfig<2, F = F>>(p: &mut CompressedProofWithPublicInputs<F, C, 2>, f: &mut dyn FnMut(&'static str, Slot<<C::Hasher as Hasher<F>>::Hash>)) {
    for x in p.public_inputs.iter_mut() {
        f("public_input", Slot::F(x));
    }
    for h in p.proof.wires_cap.0.iter_mut() {
        f("wires_cap", Slot::H(h));
    }
    for h in p.proof.plonk_zs_partial_products_cap.0.iter_mut() {
        f("zs_partial_products_cap", Slot::H(h));
    }
    for h in p.proof.quotient_polys_cap.0.iter_mut() {
        f("quotient_polys_cap", Slot::H(h));
    }
    let o = &mut p.proof.openings;
    for (name, v) in [
        ("openings.constants", &mut o.constants),
        ("openings.plonk_sigmas", &mut o.plonk_sigmas),
        ("openings.wires", &mut o.wires),
        ("openings.plonk_zs", &mut o.plonk_zs),
        ("openings.plonk_zs_next", &mut o.plonk_zs_next),
        ("openings.partial_products", &mut o.partial_products),
        ("openings.quotient_polys", &mut o.quotient_polys),
        ("openings.lookup_zs", &mut o.lookup_zs),
        ("openings.lookup_zs_next", &mut o.lookup_zs_next),
    ] {
        for x in v.iter_mut() {
            f(name, Slot::E(x));
        }
    }
    let fp = &mut p.proof.opening_proof;
    for cap in fp.commit_phase_merkle_caps.iter_mut() {
        for h in cap.0.iter_mut() {
            f("fri.commit_phase_cap", Slot::H(h));
        }
    }
    let mut keys: Vec<usize> = fp.query_round_proofs.initial_trees_proofs.keys().copied().collect();
    keys.sort();
    for k in keys {
        let itp = fp.query_round_proofs.initial_trees_proofs.get_mut(&k).unwrap();
        for (evals, mp) in itp.evals_proofs.iter_mut() {
            for x in evals.iter_mut() {
                f("fri.query.initial_leaf", Slot::F(x));
            }
            for h in mp.siblings.iter_mut() {
                f("fri.query.initial_sibling", Slot::H(h));
            }
        }
    }
    for layer in fp.query_round_proofs.steps.iter_mut() {
        let mut keys: Vec<usize> = layer.keys().copied().collect();
        keys.sort();
        for k in keys {
            let step = layer.get_mut(&k).unwrap();
            for x in step.evals.iter_mut() {
                f("fri.query.step_eval", Slot::E(x));
            }
            for h in step.merkle_proof.siblings.iter_mut() {
                f("fri.query.step_sibling", Slot::H(h));
            }
        }
    }
    for x in fp.final_poly.coeffs.iter_mut() {
        f("fri.final_poly", Slot::E(x));
    }
    f("fri.pow_witness", Slot::F(&mut fp.pow_witness));
}

pub fn count_compressed_slots<C: GenericConfig<2, F = F>>(p: &CompressedProofWithPublicInputs<F, C, 2>) -> usize {
    let mut q = p.clone();
    let mut n = 0;
    walk_compressed::<C>(&mut q, &mut |_, _| n += 1);
    n
}

pub fn tamper_compressed_at<C: GenericConfig<2, F = F>>(p: &CompressedProofWithPublicInputs<F, C, 2>, k: usize, mode: u8, r: u64) -> (CompressedProofWithPublicInputs<F, C, 2>, &'static str)
where
    <C::Hasher as Hasher<F>>::Hash: HashTamper,
{
    let mut q = p.clone();
    let mut i = 0usize;
    let mut class = "";
    walk_compressed::<C>(&mut q, &mut |name, slot| {
        if i == k {
            class = name;
            tamper_slot(slot, mode, r);
        }
        i += 1;
    });
    (q, class)
}

// ---- STARK proofs --------------------------------------------------------------------------------

use starky::proof::StarkProofWithPublicInputs;

pub fn walk_stark<C: GenericConfig<2, F = F>>(p: &mut StarkProofWithPublicInputs<F, C, 2>, f: &mut dyn FnMut(&'static str, Slot<<C::Hasher as Hasher<F>>::Hash>)) {
    for x in p.public_inputs.iter_mut() {
        f("public_input", Slot::F(x));
    }
    for h in p.proof.trace_cap.0.iter_mut() {
        f("trace_cap", Slot::H(h));
    }
    if let Some(cap) = p.proof.auxiliary_polys_cap.as_mut() {
        for h in cap.0.iter_mut() {
            f("auxiliary_polys_cap", Slot::H(h));
        }
    }
    if let Some(cap) = p.proof.quotient_polys_cap.as_mut() {
        for h in cap.0.iter_mut() {
            f("quotient_polys_cap", Slot::H(h));
        }
    }
    let o = &mut p.proof.openings;
    for x in o.local_values.iter_mut() {
        f("openings.local_values", Slot::E(x));
    }
    for x in o.next_values.iter_mut() {
        f("openings.next_values", Slot::E(x));
    }
    if let Some(v) = o.auxiliary_polys.as_mut() {
        for x in v.iter_mut() {
            f("openings.auxiliary_polys", Slot::E(x));
        }
    }
    if let Some(v) = o.auxiliary_polys_next.as_mut() {
        for x in v.iter_mut() {
            f("openings.auxiliary_polys_next", Slot::E(x));
        }
    }
    if let Some(v) = o.ctl_zs_first.as_mut() {
        for x in v.iter_mut() {
            f("openings.ctl_zs_first", Slot::F(x));
        }
    }
    if let Some(v) = o.quotient_polys.as_mut() {
        for x in v.iter_mut() {
            f("openings.quotient_polys", Slot::E(x));
        }
    }
    walk_fri::<C::Hasher>(&mut p.proof.opening_proof, f);
}

pub fn count_stark_slots<C: GenericConfig<2, F = F>>(p: &StarkProofWithPublicInputs<F, C, 2>) -> usize {
    let mut q = p.clone();
    let mut n = 0;
    walk_stark::<C>(&mut q, &mut |_, _| n += 1);
    n
}

pub fn tamper_stark_at<C: GenericConfig<2, F = F>>(p: &StarkProofWithPublicInputs<F, C, 2>, k: usize, mode: u8, r: u64) -> (StarkProofWithPublicInputs<F, C, 2>, &'static str)
where
    <C::Hasher as Hasher<F>>::Hash: HashTamper,
{
    let mut q = p.clone();
    let mut i = 0usize;
    let mut class = "";
    walk_stark::<C>(&mut q, &mut |name, slot| {
        if i == k {
            class = name;
            tamper_slot(slot, mode, r);
        }
        i += 1;
    });
    (q, class)
}
