//! A data-driven family of STARK definitions for the starky workloads (C04, C09, C10, C11, C18, C19).
//!
//! A `Spec` lists constraints as explicit polynomials over local / next / public values with a row
//! filter (first row, last row, transitions, all rows incl. wrap-around), optional column lookups and
//! a cross-table flag. `GenStark<COLS, PIS>` implements the crate's `Stark` trait by interpreting the
//! spec; `Spec::check_trace` is the independent row-by-row predicate (u128 arithmetic, explicit row
//! filters — no constraint consumer, no packed types, no quotient).

use std::sync::Arc;

use plonky2::field::extension::{Extendable, FieldExtension};
use plonky2::field::goldilocks_field::GoldilocksField as F;
use plonky2::field::packed::PackedField;
use plonky2::field::polynomial::PolynomialValues;
use plonky2::field::types::Field;
use plonky2::fri::reduction_strategies::FriReductionStrategy;
use plonky2::fri::FriConfig;
use plonky2::iop::ext_target::ExtensionTarget;
use plonky2::plonk::circuit_builder::CircuitBuilder;
use rand::Rng;
use rand_chacha::ChaCha8Rng;
use serde_json::{json, Value};
use starky::config::StarkConfig;
use starky::constraint_consumer::{ConstraintConsumer, RecursiveConstraintConsumer};
use starky::evaluation_frame::{StarkEvaluationFrame, StarkFrame};
use starky::lookup::{Column, Filter, Lookup};
use starky::stark::Stark;

use crate::gen;
use crate::refmodel::{radd, rmul, rsub};

pub const D: usize = 2;
pub const P: u64 = 0xFFFF_FFFF_0000_0001;

#[derive(Clone, Copy, Debug, PartialEq, Eq)]
pub enum Term {
    L(usize),
    N(usize),
    Pi(usize),
}

#[derive(Clone, Debug)]
pub struct Mono {
    pub c: u64,
    pub f: Vec<Term>,
}

#[derive(Clone, Copy, Debug, PartialEq, Eq)]
pub enum Kind {
    First,
    Last,
    Transition,
    All,
}

#[derive(Clone, Debug)]
pub struct Cons {
    pub kind: Kind,
    pub poly: Vec<Mono>,
    pub what: String,
}

/// column expression for lookups: sum of (column, coefficient) over the local row, plus the same
/// over the next row, plus a constant
#[derive(Clone, Debug, Default)]
pub struct ColSpec {
    pub local: Vec<(usize, u64)>,
    pub next: Vec<(usize, u64)>,
    pub constant: u64,
}
impl ColSpec {
    pub fn single(c: usize) -> Self {
        ColSpec { local: vec![(c, 1)], next: vec![], constant: 0 }
    }
    pub fn to_column(&self) -> Column<F> {
        let a: Vec<(usize, F)> = self.local.iter().map(|(c, k)| (*c, F(*k))).collect();
        let b: Vec<(usize, F)> = self.next.iter().map(|(c, k)| (*c, F(*k))).collect();
        Column::linear_combination_and_next_row_with_constant(a, b, F(self.constant))
    }
    pub fn eval(&self, trace: &[Vec<u64>], row: usize) -> u64 {
        let n = trace[0].len();
        let mut acc = self.constant;
        for (c, k) in &self.local {
            acc = radd(acc, rmul(*k, trace[*c][row]));
        }
        for (c, k) in &self.next {
            acc = radd(acc, rmul(*k, trace[*c][(row + 1) % n]));
        }
        acc
    }
}

#[derive(Clone, Debug)]
pub struct LookupSpec {
    pub looking: Vec<ColSpec>,
    /// optional boolean filter column per looking column
    pub filters: Vec<Option<usize>>,
    pub table: usize,
    pub freq: usize,
}

#[derive(Clone, Debug, Default)]
pub struct Spec {
    pub cols: usize,
    pub pis: usize,
    pub cons: Vec<Cons>,
    pub degree: usize,
    pub lookups: Vec<LookupSpec>,
    pub ctl: bool,
    pub name: String,
}

impl Spec {
    pub fn describe(&self) -> Value {
        json!({"name": self.name, "columns": self.cols, "public_inputs": self.pis, "constraint_degree": self.degree, "constraints": self.cons.iter().map(|c| format!("{:?}:{}", c.kind, c.what)).collect::<Vec<_>>(), "lookups": self.lookups.len(), "ctl": self.ctl})
    }

    fn eval_poly(poly: &[Mono], local: &dyn Fn(usize) -> u64, next: &dyn Fn(usize) -> u64, pis: &[u64]) -> u64 {
        let mut acc = 0u64;
        for m in poly {
            let mut t = m.c % P;
            for f in &m.f {
                t = rmul(
                    t,
                    match f {
                        Term::L(i) => local(*i),
                        Term::N(i) => next(*i),
                        Term::Pi(i) => pis[*i] % P,
                    },
                );
            }
            acc = radd(acc, t);
        }
        acc
    }

    /// Independent predicate: (row, constraint index) pairs that are violated. `trace[col][row]`.
    pub fn check_trace(&self, trace: &[Vec<u64>], pis: &[u64]) -> Vec<(usize, usize)> {
        let n = trace[0].len();
        let mut bad = vec![];
        for (ci, c) in self.cons.iter().enumerate() {
            let rows: Vec<usize> = match c.kind {
                Kind::First => vec![0],
                Kind::Last => vec![n - 1],
                Kind::Transition => (0..n.saturating_sub(1)).collect(),
                Kind::All => (0..n).collect(),
            };
            for r in rows {
                let v = Self::eval_poly(&c.poly, &|i| trace[i][r] % P, &|i| trace[i][(r + 1) % n] % P, pis);
                if v != 0 {
                    bad.push((r, ci));
                    if bad.len() > 64 {
                        return bad;
                    }
                }
            }
        }
        bad
    }

    /// Independent lookup predicate: for each lookup, the multiset of filtered looking values must
    /// equal the table column weighted by the frequency column. Returns descriptions of violations.
    pub fn check_lookups(&self, trace: &[Vec<u64>]) -> Vec<String> {
        let n = trace[0].len();
        let mut out = vec![];
        for (li, l) in self.lookups.iter().enumerate() {
            let mut looking: std::collections::BTreeMap<u64, u128> = Default::default();
            for (k, col) in l.looking.iter().enumerate() {
                for r in 0..n {
                    let f = match l.filters[k] {
                        Some(fc) => trace[fc][r] % P,
                        None => 1,
                    };
                    if f != 0 {
                        // non-boolean filters act as weights in the argument
                        *looking.entry(col.eval(trace, r)).or_insert(0) += f as u128;
                    }
                }
            }
            let mut table: std::collections::BTreeMap<u64, u128> = Default::default();
            for r in 0..n {
                let fr = trace[l.freq][r] % P;
                if fr != 0 {
                    *table.entry(trace[l.table][r] % P).or_insert(0) += fr as u128;
                }
            }
            let norm = |m: &std::collections::BTreeMap<u64, u128>| -> std::collections::BTreeMap<u64, u64> { m.iter().map(|(k, v)| (*k, (*v % P as u128) as u64)).filter(|(_, v)| *v != 0).collect() };
            if norm(&looking) != norm(&table) {
                out.push(format!("lookup {li}: filtered looking multiset differs from table x frequencies"));
            }
        }
        out
    }
}

#[derive(Clone)]
pub struct GenStark<const COLS: usize, const PIS: usize> {
    pub spec: Arc<Spec>,
}

impl<const COLS: usize, const PIS: usize> GenStark<COLS, PIS> {
    pub fn new(spec: Spec) -> Self {
        assert_eq!(spec.cols, COLS);
        assert_eq!(spec.pis, PIS);
        GenStark { spec: Arc::new(spec) }
    }
}

impl<const COLS: usize, const PIS: usize> Stark<F, D> for GenStark<COLS, PIS> {
    type EvaluationFrame<FE, P, const D2: usize>
        = StarkFrame<P, P::Scalar, COLS, PIS>
    where
        FE: FieldExtension<D2, BaseField = F>,
        P: PackedField<Scalar = FE>;

    type EvaluationFrameTarget = StarkFrame<ExtensionTarget<D>, ExtensionTarget<D>, COLS, PIS>;

    fn eval_packed_generic<FE, P, const D2: usize>(&self, vars: &Self::EvaluationFrame<FE, P, D2>, yield_constr: &mut ConstraintConsumer<P>)
    where
        FE: FieldExtension<D2, BaseField = F>,
        P: PackedField<Scalar = FE>,
    {
        let lv = vars.get_local_values();
        let nv = vars.get_next_values();
        let pis = vars.get_public_inputs();
        for c in self.spec.cons.iter() {
            let mut acc = P::ZEROS;
            for m in c.poly.iter() {
                let mut t = P::ONES * FE::from_canonical_u64(m.c % P_CONST);
                for f in m.f.iter() {
                    t = match f {
                        Term::L(i) => t * lv[*i],
                        Term::N(i) => t * nv[*i],
                        Term::Pi(i) => t * pis[*i],
                    };
                }
                acc += t;
            }
            match c.kind {
                Kind::First => yield_constr.constraint_first_row(acc),
                Kind::Last => yield_constr.constraint_last_row(acc),
                Kind::Transition => yield_constr.constraint_transition(acc),
                Kind::All => yield_constr.constraint(acc),
            }
        }
    }

    fn eval_ext_circuit(&self, builder: &mut CircuitBuilder<F, D>, vars: &Self::EvaluationFrameTarget, yield_constr: &mut RecursiveConstraintConsumer<F, D>) {
        let lv = vars.get_local_values();
        let nv = vars.get_next_values();
        let pis = vars.get_public_inputs();
        for c in self.spec.cons.iter() {
            let mut acc = builder.zero_extension();
            for m in c.poly.iter() {
                let mut t = builder.constant_extension(<F as Extendable<D>>::Extension::from_canonical_u64(m.c % P_CONST));
                for f in m.f.iter() {
                    let x = match f {
                        Term::L(i) => lv[*i],
                        Term::N(i) => nv[*i],
                        Term::Pi(i) => pis[*i],
                    };
                    t = builder.mul_extension(t, x);
                }
                acc = builder.add_extension(acc, t);
            }
            match c.kind {
                Kind::First => yield_constr.constraint_first_row(builder, acc),
                Kind::Last => yield_constr.constraint_last_row(builder, acc),
                Kind::Transition => yield_constr.constraint_transition(builder, acc),
                Kind::All => yield_constr.constraint(builder, acc),
            }
        }
    }

    fn constraint_degree(&self) -> usize {
        self.spec.degree
    }

    fn lookups(&self) -> Vec<Lookup<F>> {
        self.spec
            .lookups
            .iter()
            .map(|l| Lookup {
                columns: l.looking.iter().map(|c| c.to_column()).collect(),
                table_column: Column::single(l.table),
                frequencies_column: Column::single(l.freq),
                filter_columns: l.filters.iter().map(|f| match f {
                    Some(c) => Filter::new_simple(Column::single(*c)),
                    None => Filter::new_simple(Column::one()),
                }).collect(),
            })
            .collect()
    }

    fn requires_ctls(&self) -> bool {
        self.spec.ctl
    }
}

const P_CONST: u64 = P;

// ---- generation ---------------------------------------------------------------------------------

fn neg(c: u64) -> u64 {
    (P - c % P) % P
}

/// `target - (sum of monos)` as a polynomial.
fn minus(target: Term, rhs: &[Mono]) -> Vec<Mono> {
    let mut v = vec![Mono { c: 1, f: vec![target] }];
    for m in rhs {
        v.push(Mono { c: neg(m.c), f: m.f.clone() });
    }
    v
}

fn rand_poly(rng: &mut ChaCha8Rng, vars: &[usize], degree: usize, bset: &[u64]) -> Vec<Mono> {
    let n_monos = rng.gen_range(1..=3);
    let mut v = vec![];
    for k in 0..n_monos {
        let d = if k == 0 { degree } else { rng.gen_range(0..=degree) };
        let f: Vec<Term> = (0..d).map(|_| Term::L(vars[rng.gen_range(0..vars.len())])).collect();
        let c = match rng.gen_range(0..3) {
            0 => 1,
            1 => rng.gen_range(1..8),
            _ => gen::canon_u64(rng, bset).max(1),
        };
        v.push(Mono { c, f });
    }
    v
}

pub struct Generated {
    pub spec: Spec,
    /// trace[col][row]
    pub trace: Vec<Vec<u64>>,
    pub pis: Vec<u64>,
}

/// Layout used by `gen_family` for `cols >= 3`, `pis >= 2`:
///   state columns 0..s, then (optionally) a derived column, a boolean column, a cyclic counter,
///   remaining columns are free (referenced by no constraint).
/// Public inputs: initial state values (as many as fit), last: value of state column 0 in the last row.
pub fn gen_family(rng: &mut ChaCha8Rng, cols: usize, pis: usize, degree: usize, log_n: usize) -> Generated {
    let bset = gen::boundary_set();
    let n = 1usize << log_n;
    let mut spec = Spec { cols, pis, degree, name: format!("gen{cols}x{pis}d{degree}"), ..Default::default() };
    let mut trace = vec![vec![0u64; n]; cols];
    let mut pi_vals = vec![0u64; pis];
    if degree == 0 {
        // no constraints at all
        for c in trace.iter_mut() {
            for x in c.iter_mut() {
                *x = gen::canon_u64(rng, &bset);
            }
        }
        for x in pi_vals.iter_mut() {
            *x = gen::canon_u64(rng, &bset);
        }
        return Generated { spec, trace, pis: pi_vals };
    }
    // column budget
    let mut next_col = 0usize;
    let want_extras = degree >= 2;
    let n_extras = if want_extras { (cols.saturating_sub(2)).min(3) } else { 0 };
    let s = (cols - n_extras).clamp(1, 3).min(cols);
    let state: Vec<usize> = (0..s).collect();
    next_col += s;
    // transitions: next[j] = f_j(local state)
    let fs: Vec<Vec<Mono>> = state.iter().map(|_| rand_poly(rng, &state, degree.min(if degree >= 2 { degree } else { 1 }), &bset)).collect();
    for (j, f) in fs.iter().enumerate() {
        spec.cons.push(Cons { kind: Kind::Transition, poly: minus(Term::N(j), f), what: format!("next[{j}] = f{j}(local state)") });
    }
    // extras
    let mut derived: Option<(usize, Vec<Mono>)> = None;
    let mut boolean: Option<usize> = None;
    let mut counter: Option<usize> = None;
    for e in 0..n_extras {
        if next_col >= cols {
            break;
        }
        match e {
            0 => {
                let g = rand_poly(rng, &state, degree, &bset);
                spec.cons.push(Cons { kind: Kind::All, poly: minus(Term::L(next_col), &g), what: format!("local[{next_col}] = g(local state) on every row") });
                derived = Some((next_col, g));
            }
            1 => {
                spec.cons.push(Cons { kind: Kind::All, poly: vec![Mono { c: 1, f: vec![Term::L(next_col), Term::L(next_col)] }, Mono { c: neg(1), f: vec![Term::L(next_col)] }], what: format!("local[{next_col}] boolean on every row") });
                boolean = Some(next_col);
            }
            _ => {
                // (next - local - 1) * (next - local + n - 1) = 0 on every row, wrap-around included
                let c = next_col;
                let d = vec![Mono { c: 1, f: vec![Term::N(c)] }, Mono { c: neg(1), f: vec![Term::L(c)] }];
                let mut poly = vec![];
                for a in d.iter() {
                    for b in d.iter() {
                        let mut f = a.f.clone();
                        f.extend(b.f.clone());
                        poly.push(Mono { c: rmul(a.c, b.c), f });
                    }
                }
                // (d - 1)(d + n - 1) = d^2 + (n-2) d - (n-1)
                for a in d.iter() {
                    poly.push(Mono { c: rmul(a.c, ((n as u64) + P - 2) % P), f: a.f.clone() });
                }
                poly.push(Mono { c: neg((n as u64 - 1) % P), f: vec![] });
                spec.cons.push(Cons { kind: Kind::All, poly, what: format!("local[{c}] is a cyclic counter (wrap-around row included)") });
                counter = Some(c);
            }
        }
        next_col += 1;
    }
    // public inputs: initial state and final value
    let n_init = if pis == 0 { 0 } else { (pis - 1).min(s) };
    for j in 0..n_init {
        spec.cons.push(Cons { kind: Kind::First, poly: vec![Mono { c: 1, f: vec![Term::L(j)] }, Mono { c: neg(1), f: vec![Term::Pi(j)] }], what: format!("first row: local[{j}] = pi[{j}]") });
    }
    if pis >= 1 {
        spec.cons.push(Cons { kind: Kind::Last, poly: vec![Mono { c: 1, f: vec![Term::L(0)] }, Mono { c: neg(1), f: vec![Term::Pi(pis - 1)] }], what: format!("last row: local[0] = pi[{}]", pis - 1) });
    }
    // ---- trace ----------------------------------------------------------------------------------
    let mut cur: Vec<u64> = (0..s).map(|_| gen::canon_u64(rng, &bset)).collect();
    let c0 = gen::canon_u64(rng, &bset);
    for r in 0..n {
        for j in 0..s {
            trace[j][r] = cur[j];
        }
        let loc = |i: usize| if i < s { cur[i] } else { 0 };
        if let Some((c, g)) = &derived {
            trace[*c][r] = Spec::eval_poly(g, &loc, &|_| 0, &[]);
        }
        if let Some(c) = boolean {
            trace[c][r] = rng.gen_range(0..2);
        }
        if let Some(c) = counter {
            trace[c][r] = radd(c0, r as u64);
        }
        let nxt: Vec<u64> = fs.iter().map(|f| Spec::eval_poly(f, &loc, &|_| 0, &[])).collect();
        cur = nxt;
    }
    for c in next_col..cols {
        for r in 0..n {
            trace[c][r] = gen::canon_u64(rng, &bset);
        }
    }
    for j in 0..n_init {
        pi_vals[j] = trace[j][0];
    }
    for j in n_init..pis.saturating_sub(1) {
        pi_vals[j] = gen::canon_u64(rng, &bset); // unreferenced public input
    }
    if pis >= 1 {
        pi_vals[pis - 1] = trace[0][n - 1];
    }
    let _ = rsub(0, 0);
    Generated { spec, trace, pis: pi_vals }
}

pub fn to_poly_values(trace: &[Vec<u64>]) -> Vec<PolynomialValues<F>> {
    trace.iter().map(|c| PolynomialValues::new(c.iter().map(|x| F(*x)).collect())).collect()
}

/// Samples a STARK configuration; `small` keeps proofs cheap.
pub fn gen_stark_config(rng: &mut ChaCha8Rng, degree: usize, small: bool) -> StarkConfig {
    // constraint degree <= 2^rate_bits + 1
    let min_rate = match degree {
        0..=3 => 1,
        4..=5 => 2,
        _ => 3,
    };
    let rate_bits = rng.gen_range(min_rate..=3);
    let strategy = match rng.gen_range(0..5) {
        0 => FriReductionStrategy::ConstantArityBits(rng.gen_range(1..=3), rng.gen_range(0..=3)),
        1 => FriReductionStrategy::ConstantArityBits(4, 5),
        2 => FriReductionStrategy::MinSize(Some(rng.gen_range(1..=3))),
        3 => FriReductionStrategy::Fixed((0..rng.gen_range(0..3)).map(|_| rng.gen_range(1..=2)).collect()),
        _ => FriReductionStrategy::ConstantArityBits(1, 1),
    };
    let num_query_rounds = if small { rng.gen_range(4..12) } else { rng.gen_range(12..40) };
    let pow = rng.gen_range(0..if small { 5 } else { 10 });
    StarkConfig { security_bits: (num_query_rounds * rate_bits + pow as usize).min(100), num_challenges: rng.gen_range(1..=3), fri_config: FriConfig { rate_bits, cap_height: rng.gen_range(0..=3), proof_of_work_bits: pow, reduction_strategy: strategy, num_query_rounds } }
}

pub fn describe_stark_config(c: &StarkConfig) -> Value {
    json!({"num_challenges": c.num_challenges, "rate_bits": c.fri_config.rate_bits, "cap_height": c.fri_config.cap_height, "pow_bits": c.fri_config.proof_of_work_bits, "queries": c.fri_config.num_query_rounds, "strategy": format!("{:?}", c.fri_config.reduction_strategy)})
}

// ---- lookup-bearing definitions -------------------------------------------------------------------

/// Layout: col 0 table, col 1 frequencies, then looking columns, then one boolean filter column
/// (if room), remaining columns free. With `cols >= 9` a second lookup uses cols 2 (table), 3
/// (frequencies) and its own looking columns. Looking expressions include plain columns, linear
/// combinations with a constant, and next-row columns. No public inputs are referenced.
pub fn gen_lookup_family(rng: &mut ChaCha8Rng, cols: usize, pis: usize, degree: usize, log_n: usize) -> Generated {
    assert!(cols >= 4 && (degree == 2 || degree == 3));
    let n = 1usize << log_n;
    let bset = gen::boundary_set();
    let mut spec = Spec { cols, pis, degree, name: format!("lookup{cols}d{degree}"), ..Default::default() };
    let mut trace = vec![vec![0u64; n]; cols];
    let two = cols >= 9;
    let groups: Vec<(usize, usize, Vec<usize>)> = if two {
        let rest: Vec<usize> = (4..cols - 1).collect();
        let (a, b) = rest.split_at(rest.len() / 2);
        vec![(0, 1, a.to_vec()), (2, 3, b.to_vec())]
    } else {
        vec![(0, 1, (2..cols - 1).collect())]
    };
    let filter_col = cols - 1;
    // boolean filter column, constrained to be boolean on every row
    spec.cons.push(Cons { kind: Kind::All, poly: vec![Mono { c: 1, f: vec![Term::L(filter_col), Term::L(filter_col)] }, Mono { c: neg(1), f: vec![Term::L(filter_col)] }], what: format!("local[{filter_col}] boolean (lookup filter)") });
    // all decisions that shape the DEFINITION are drawn before any trace value, so that the same
    // generator state yields the same definition for every trace length
    let mut plans: Vec<(u32, Vec<(u32, u64, u64)>)> = vec![];
    for (_, _, lcols) in groups.iter() {
        let style = rng.gen_range(0..3);
        let per_col: Vec<(u32, u64, u64)> = lcols.iter().map(|_| (rng.gen_range(0..4), rng.gen_range(1..1000u64), gen::canon_u64(rng, &bset))).collect();
        plans.push((style, per_col));
    }
    for r in 0..n {
        trace[filter_col][r] = rng.gen_range(0..2);
    }
    for (gi, (tcol, fcol, lcols)) in groups.iter().enumerate() {
        // table values: a range, small values with repeats, or boundary-biased values
        let style = plans[gi].0;
        for r in 0..n {
            trace[*tcol][r] = match style {
                0 => r as u64,
                1 => rng.gen_range(0..(n as u64 / 2).max(2)),
                _ => gen::canon_u64(rng, &bset),
            };
        }
        let tvals: Vec<u64> = trace[*tcol].clone();
        let pick = |rng: &mut ChaCha8Rng| tvals[rng.gen_range(0..n)];
        let mut looking = vec![];
        let mut filters = vec![];
        let mut k = 0;
        while k < lcols.len() {
            let c = lcols[k];
            let (kind, coeff, constant) = plans[gi].1[k];
            if kind == 1 && k + 1 < lcols.len() {
                // linear combination a + coeff*b + constant over two columns
                let b = lcols[k + 1];
                for r in 0..n {
                    let t = pick(rng);
                    let vb = rng.gen_range(0..1u64 << 16);
                    trace[b][r] = vb;
                    trace[c][r] = rsub(rsub(t, rmul(coeff, vb)), constant);
                }
                looking.push(ColSpec { local: vec![(c, 1), (b, coeff)], next: vec![], constant });
                filters.push(None);
                k += 2;
                continue;
            }
            for r in 0..n {
                trace[c][r] = pick(rng);
            }
            if kind == 2 {
                looking.push(ColSpec { local: vec![], next: vec![(c, 1)], constant: 0 });
                filters.push(None);
            } else if kind == 3 && gi == 0 {
                // filtered column: rows with filter 0 may hold anything
                for r in 0..n {
                    if trace[filter_col][r] == 0 && rng.gen_bool(0.5) {
                        trace[c][r] = gen::canon_u64(rng, &bset);
                    }
                }
                looking.push(ColSpec::single(c));
                filters.push(Some(filter_col));
            } else {
                looking.push(ColSpec::single(c));
                filters.push(None);
            }
            k += 1;
        }
        let ls = LookupSpec { looking, filters, table: *tcol, freq: *fcol };
        // frequencies: all occurrences credited to the first row holding the value
        let mut first_row: std::collections::BTreeMap<u64, usize> = Default::default();
        for r in 0..n {
            first_row.entry(tvals[r]).or_insert(r);
        }
        for (kk, col) in ls.looking.iter().enumerate() {
            for r in 0..n {
                let f = match ls.filters[kk] {
                    Some(fc) => trace[fc][r],
                    None => 1,
                };
                if f != 0 {
                    let v = col.eval(&trace, r);
                    let row = first_row[&v];
                    trace[*fcol][row] = radd(trace[*fcol][row], f);
                }
            }
        }
        spec.lookups.push(ls);
    }
    let pi_vals: Vec<u64> = (0..pis).map(|_| gen::canon_u64(rng, &bset)).collect();
    Generated { spec, trace, pis: pi_vals }
}
