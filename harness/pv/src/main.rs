use pv::mon::{install_panic_hook, Tier};
use pv::props;

fn main() {
    let args: Vec<String> = std::env::args().collect();
    if args.len() < 3 {
        eprintln!("usage: pv <Cxx> <quick|thorough>");
        std::process::exit(3);
    }
    let tier = match args[2].as_str() {
        "quick" => Tier::Quick,
        "thorough" => Tier::Thorough,
        "micro" => Tier::Micro,
        other => {
            eprintln!("unknown tier {other}");
            std::process::exit(3);
        }
    };
    install_panic_hook();
    match args[1].as_str() {
        "C01" => props::c01::run(tier),
        "C02" => props::c02::run(tier),
        "C03" => props::c03::run(tier),
        "C04" => props::c04::run(tier),
        "C05" => props::c05::run(tier),
        "C06" => props::c06::run(tier),
        "C07" => props::c07::run(tier),
        "C08" => props::c08::run(tier),
        "C09" => props::c09::run(tier),
        "C10" => props::c10::run(tier),
        "C11" => props::c11::run(tier),
        "C12" => props::c12::run(tier),
        "C13" => props::c13::run(tier),
        "C14" => props::c14::run(tier),
        "C15" => props::c15::run(tier),
        "C16" => props::c16::run(tier),
        "C17" => props::c17::run(tier),
        "C18" => props::c18::run(tier),
        "C19" => props::c19::run(tier),
        "C20" => props::c20::run(tier),
        other => {
            eprintln!("unknown property {other}");
            std::process::exit(3);
        }
    }
}
