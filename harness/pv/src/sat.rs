//! Witness-satisfaction oracle: decides, row by row and class by class, whether a full wire matrix
//! satisfies everything a built circuit states at the PLONK level:
//!   (i)   the constraints of the gate placed on every row (the gate is identified from the selector
//!         *values* of that row, the constraints are evaluated unfiltered on the row's own constants —
//!         the filter products, the alpha combination and the quotient are not involved),
//!   (ii)  equality of all routed wire cells that belong to one copy class (classes taken from the
//!         builder's disjoint-set forest, not from the sigma polynomials),
//!   (iii) the lookup relation per table, by direct comparison of table rows with the declared table
//!         and multiset comparison of looking slots with multiplicities (no challenges involved).
//! Used by the negative workloads (C02, C06, C08, C11, C20) to classify an assignment as violating or
//! satisfying before the real prover/verifier is asked.

use std::collections::BTreeMap;

use plonky2::field::extension::Extendable;
use plonky2::field::goldilocks_field::GoldilocksField as F;
use plonky2::field::polynomial::PolynomialCoeffs;
use plonky2::field::types::{Field, PrimeField64};
use plonky2::gates::lookup::LookupGate;
use plonky2::gates::lookup_table::LookupTableGate;
use plonky2::hash::hash_types::HashOut;
use plonky2::iop::target::Target;
use plonky2::iop::witness::{PartitionWitness, Witness};
use plonky2::plonk::circuit_data::{CircuitData, CommonCircuitData, ProverOnlyCircuitData};
use plonky2::plonk::config::{GenericConfig, Hasher};
use plonky2::plonk::vars::EvaluationVars;
use plonky2::verif_hooks as vh;

pub const D: usize = 2;
type FE = <F as Extendable<D>>::Extension;

#[derive(Clone, Debug, Default)]
pub struct SatReport {
    /// (row, gate id (short), index of first non-zero constraint)
    pub gate: Vec<(usize, String, usize)>,
    /// (representative index, number of routed cells in the class, number of distinct values)
    pub copy: Vec<(usize, usize, usize)>,
    /// (table index, reason)
    pub lookup: Vec<(usize, String)>,
    pub rows: usize,
    pub classes_with_several_cells: usize,
}

impl SatReport {
    pub fn satisfied(&self) -> bool {
        self.gate.is_empty() && self.copy.is_empty() && self.lookup.is_empty()
    }
    pub fn summary(&self) -> String {
        let mut parts = vec![];
        if let Some((r, g, c)) = self.gate.first() {
            parts.push(format!("gate:{}@row{}#c{} (+{} more)", g, r, c, self.gate.len() - 1));
        }
        if let Some((rep, n, d)) = self.copy.first() {
            parts.push(format!("copy:class{}({} cells,{} values) (+{} more)", rep, n, d, self.copy.len() - 1));
        }
        if let Some((t, why)) = self.lookup.first() {
            parts.push(format!("lookup:table{}:{} (+{} more)", t, why, self.lookup.len() - 1));
        }
        if parts.is_empty() {
            "satisfied".into()
        } else {
            parts.join("; ")
        }
    }
    /// Coarse class of the first violation (for evidence matrices).
    pub fn class(&self) -> String {
        if let Some((_, g, _)) = self.gate.first() {
            return format!("gate.{g}");
        }
        if !self.copy.is_empty() {
            return "copy".into();
        }
        if !self.lookup.is_empty() {
            return "lookup".into();
        }
        "satisfied".into()
    }
}

pub fn short_gate_id(id: &str) -> String {
    id.split(|ch: char| ch == ' ' || ch == '{' || ch == '<' || ch == '(').next().unwrap_or("").to_string()
}

/// Per-circuit context: constants of every row and the gate placed on every row.
pub struct SatCtx {
    pub degree: usize,
    pub num_wires: usize,
    pub num_routed: usize,
    /// constants[row] (all constant columns incl. selector columns)
    pub constants: Vec<Vec<F>>,
    /// index into common.gates of the gate on each row
    pub gate_at_row: Vec<usize>,
    pub num_prefix: usize,
}

impl SatCtx {
    pub fn new<C: GenericConfig<D, F = F>>(prover: &ProverOnlyCircuitData<F, C, D>, common: &CommonCircuitData<F, D>) -> Result<Self, String> {
        let degree = common.degree();
        let nc = common.num_constants;
        let mut cols: Vec<Vec<F>> = vec![];
        for p in prover.constants_sigmas_commitment.polynomials.iter().take(nc) {
            let mut c = p.coeffs.clone();
            c.resize(degree, F::ZERO);
            cols.push(PolynomialCoeffs::new(c).fft().values);
        }
        let constants: Vec<Vec<F>> = (0..degree).map(|r| cols.iter().map(|c| c[r]).collect()).collect();
        let sel_idx = vh::selector_indices(&common.selectors_info);
        let mut gate_at_row = vec![usize::MAX; degree];
        for r in 0..degree {
            let mut found = vec![];
            for (gi, &si) in sel_idx.iter().enumerate() {
                if constants[r][si].to_canonical_u64() == gi as u64 {
                    found.push(gi);
                }
            }
            if found.len() != 1 {
                return Err(format!("row {r}: {} gates selected by the selector values", found.len()));
            }
            gate_at_row[r] = found[0];
        }
        let num_selectors = vh::selector_groups(&common.selectors_info).len();
        Ok(SatCtx { degree, num_wires: common.config.num_wires, num_routed: common.config.num_routed_wires, constants, gate_at_row, num_prefix: num_selectors + common.num_lookup_selectors })
    }

    pub fn gate_name(&self, common: &CommonCircuitData<F, D>, row: usize) -> String {
        short_gate_id(&common.gates[self.gate_at_row[row]].0.id())
    }

    /// Constraints of the gate on `row` evaluated on that row of the matrix.
    pub fn row_constraints(&self, common: &CommonCircuitData<F, D>, cols: &[Vec<F>], row: usize, pih: &HashOut<F>) -> Vec<FE> {
        let gi = self.gate_at_row[row];
        let lc: Vec<FE> = self.constants[row][self.num_prefix..].iter().map(|&x| FE::from(x)).collect();
        let lw: Vec<FE> = (0..self.num_wires).map(|c| FE::from(cols[c][row])).collect();
        let vars = EvaluationVars::<F, D> { local_constants: &lc, local_wires: &lw, public_inputs_hash: pih };
        common.gates[gi].0.eval_unfiltered(vars)
    }

    pub fn check<C: GenericConfig<D, F = F>>(&self, prover: &ProverOnlyCircuitData<F, C, D>, common: &CommonCircuitData<F, D>, cols: &[Vec<F>], public_inputs: &[F]) -> SatReport {
        let mut rep = SatReport { rows: self.degree, ..Default::default() };
        let pih = <C::InnerHasher as Hasher<F>>::hash_no_pad(public_inputs);
        // (i) gates
        for r in 0..self.degree {
            let cs = self.row_constraints(common, cols, r, &pih);
            if let Some(k) = cs.iter().position(|c| *c != FE::ZERO) {
                if rep.gate.len() < 64 {
                    rep.gate.push((r, self.gate_name(common, r), k));
                }
            }
        }
        // (ii) copy classes over routed wire cells
        let mut classes: BTreeMap<usize, Vec<u64>> = BTreeMap::new();
        for r in 0..self.degree {
            for c in 0..self.num_routed {
                let idx = r * self.num_wires + c; // Target::Wire index
                let root = prover.representative_map[idx];
                classes.entry(root).or_default().push(cols[c][r].to_canonical_u64());
            }
        }
        for (root, vals) in classes.iter() {
            if vals.len() > 1 {
                rep.classes_with_several_cells += 1;
                let mut d = vals.clone();
                d.sort();
                d.dedup();
                if d.len() > 1 && rep.copy.len() < 64 {
                    rep.copy.push((*root, vals.len(), d.len()));
                }
            }
        }
        // (iii) lookups
        let s_lu = common.config.num_routed_wires / 2; // a looking slot is an (input, output) wire pair
        let s_lut = common.config.num_routed_wires / 3; // a table slot is (input, output, multiplicity)
        for (t, lw) in prover.lookup_rows.iter().enumerate() {
            let table = &common.luts[t];
            let n_rows = (table.len() - 1) / s_lut + 1;
            if lw.first_lut_gate + 1 - lw.last_lut_gate != n_rows {
                rep.lookup.push((t, "table row count differs from the declared table".into()));
                continue;
            }
            // (a) table rows carry the declared (padded) table, in the prover's placement
            let mut mult: BTreeMap<(u64, u64), F> = BTreeMap::new();
            let mut bad_table = false;
            for k in 0..n_rows * s_lut {
                let row = lw.first_lut_gate - k / s_lut;
                let s = k % s_lut;
                let want = if k < table.len() { table[k] } else { table[0] };
                let inp = cols[LookupTableGate::wire_ith_looked_inp(s)][row].to_canonical_u64();
                let out = cols[LookupTableGate::wire_ith_looked_out(s)][row].to_canonical_u64();
                if (inp, out) != (want.0 as u64, want.1 as u64) {
                    bad_table = true;
                }
                let m = cols[LookupTableGate::wire_ith_multiplicity(s)][row];
                *mult.entry((inp, out)).or_insert(F::ZERO) += m;
            }
            if bad_table {
                rep.lookup.push((t, "a table row differs from the declared table".into()));
            }
            // (b) multiset of looking pairs == multiplicities
            let mut looking: BTreeMap<(u64, u64), u64> = BTreeMap::new();
            for row in lw.last_lu_gate..lw.last_lut_gate {
                for s in 0..s_lu {
                    let inp = cols[LookupGate::wire_ith_looking_inp(s)][row].to_canonical_u64();
                    let out = cols[LookupGate::wire_ith_looking_out(s)][row].to_canonical_u64();
                    *looking.entry((inp, out)).or_insert(0) += 1;
                }
            }
            let mut bad = None;
            for (pair, cnt) in looking.iter() {
                match mult.get(pair) {
                    None => {
                        bad = Some(format!("looking pair {:?} is not a table entry", pair));
                        break;
                    }
                    Some(m) if *m != F::from_canonical_u64(*cnt) => {
                        bad = Some(format!("pair {:?} looked up {} times, multiplicity {}", pair, cnt, m.to_canonical_u64()));
                        break;
                    }
                    _ => {}
                }
            }
            if bad.is_none() {
                for (pair, m) in mult.iter() {
                    if !looking.contains_key(pair) && *m != F::ZERO {
                        bad = Some(format!("pair {:?} never looked up but multiplicity {}", pair, m.to_canonical_u64()));
                        break;
                    }
                }
            }
            if let Some(b) = bad {
                rep.lookup.push((t, b));
            }
        }
        rep
    }
}

/// Column-major wire matrix of a partition witness (every cell through its representative).
pub fn matrix_of(pw: &PartitionWitness<F>) -> Vec<Vec<F>> {
    let mut cols = vec![vec![F::ZERO; pw.degree]; pw.num_wires];
    for r in 0..pw.degree {
        for c in 0..pw.num_wires {
            if let Some(x) = pw.try_get_target(Target::wire(r, c)) {
                cols[c][r] = x;
            }
        }
    }
    cols
}

/// The full wire matrix exactly as the prover will see it for `pw` (lookup multiplicities and slot
/// padding applied), plus the public inputs it will publish.
pub fn prover_view<C: GenericConfig<D, F = F>>(data: &CircuitData<F, C, D>, pw: &PartitionWitness<F>) -> Result<(Vec<Vec<F>>, Vec<F>), String> {
    let mut w = pw.clone();
    plonky2::plonk::prover::set_lookup_wires(&data.prover_only, &data.common, &mut w).map_err(|e| e.to_string())?;
    let pis = w.get_targets(&data.prover_only.public_inputs);
    Ok((matrix_of(&w), pis))
}
