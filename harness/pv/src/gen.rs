//! Seeded generators shared by the workloads.

use plonky2::field::goldilocks_field::GoldilocksField as F;
use rand::Rng;

pub const P: u64 = 0xFFFF_FFFF_0000_0001;
pub const EPS: u64 = 0xFFFF_FFFF;

/// The fixed boundary set B of 64-bit representations.
pub fn boundary_set() -> Vec<u64> {
    let mut v: Vec<u64> = vec![
        0,
        1,
        2,
        3,
        7,
        EPS - 2,
        EPS - 1,
        EPS,
        EPS + 1,
        EPS + 2,
        1 << 32,
        (1 << 32) + 1,
        (1 << 31),
        (1 << 33) - 1,
        1 << 63,
        (1 << 63) - 1,
        (1 << 63) + 1,
        P - 2,
        P - 1,
        P,
        P + 1,
        P + 2,
        P + (EPS - 1),
        u64::MAX - EPS - 1,
        u64::MAX - EPS,
        u64::MAX - EPS + 1,
        u64::MAX - 2,
        u64::MAX - 1,
        u64::MAX,
        P / 2,
        P / 2 + 1,
        0xFFFF_FFFE_0000_0000,
        0xFFFF_FFFE_FFFF_FFFF,
        0xFFFF_FFFF_0000_0000,
        0x0000_0001_0000_0000,
        0x0000_0001_FFFF_FFFF,
        0x8000_0000_8000_0000,
        0x7FFF_FFFF_FFFF_FFFF,
        0xAAAA_AAAA_AAAA_AAAA,
        0x5555_5555_5555_5555,
    ];
    for k in [8u32, 16, 31, 32, 33, 48, 62] {
        v.push(1u64 << k);
        v.push((1u64 << k) - 1);
        v.push((1u64 << k) + 1);
    }
    for k in 1..8u64 {
        v.push(k << 32);
        v.push((k << 32) - 1);
        v.push((k << 32) + 1);
        v.push(u64::MAX - (k << 32));
        v.push(u64::MAX - (k << 32) + 1);
    }
    v.sort();
    v.dedup();
    v
}

/// Boundary-biased 64-bit representation, including the non-canonical band [p, 2^64).
pub fn raw_u64<R: Rng>(rng: &mut R, bset: &[u64]) -> u64 {
    match rng.gen_range(0..10) {
        0 | 1 | 2 => bset[rng.gen_range(0..bset.len())],
        3 | 4 => P.wrapping_add(rng.gen_range(0..=EPS - 1)), // the whole non-canonical band
        5 => u64::MAX - rng.gen_range(0..1u64 << 20),
        6 => rng.gen_range(0..1u64 << 33),
        7 => {
            // hi word all ones or near, low word random / small
            let hi: u64 = [0xFFFF_FFFFu64, 0xFFFF_FFFE, 0, 1, 0x8000_0000][rng.gen_range(0..5)];
            let lo: u64 = match rng.gen_range(0..3) {
                0 => rng.gen_range(0..4),
                1 => 0xFFFF_FFFF - rng.gen_range(0..4),
                _ => rng.gen::<u32>() as u64,
            };
            (hi << 32) | lo
        }
        _ => rng.gen(),
    }
}

/// Boundary-biased canonical value.
pub fn canon_u64<R: Rng>(rng: &mut R, bset: &[u64]) -> u64 {
    let x = raw_u64(rng, bset);
    if x >= P {
        x - P
    } else {
        x
    }
}

pub fn f_raw<R: Rng>(rng: &mut R, bset: &[u64]) -> F {
    F(raw_u64(rng, bset))
}

pub fn f_canon<R: Rng>(rng: &mut R, bset: &[u64]) -> F {
    F(canon_u64(rng, bset))
}

/// Uniform canonical field element.
pub fn f_uniform<R: Rng>(rng: &mut R) -> F {
    F(rng.gen_range(0..P))
}
