use plonky2::field::goldilocks_field::GoldilocksField as F;
use plonky2::gates::noop::NoopGate;
use plonky2::plonk::circuit_builder::CircuitBuilder;
use plonky2::plonk::circuit_data::CircuitConfig;
use plonky2::plonk::config::PoseidonGoldilocksConfig;
type C = PoseidonGoldilocksConfig;
fn main() {
    let mut config = CircuitConfig::standard_recursion_config();
    config.fri_config.num_query_rounds = 8;
    config.fri_config.proof_of_work_bits = 4;
    config.security_bits = 28;
    config.fri_config.reduction_strategy = plonky2::fri::reduction_strategies::FriReductionStrategy::ConstantArityBits(2, 1);
    let mut b = CircuitBuilder::<F, 2>::new(config.clone());
    let t = b.add_virtual_target();
    b.register_public_input(t);
    let mut x = b.square(t);
    for _ in 0..10 { x = b.square(x); }
    let data = b.build::<C>();
    let common = data.common.clone();
    // replicate dummy_circuit
    let degree = common.degree();
    let num_noop_gate = degree - common.num_public_inputs.div_ceil(8) - 2;
    let mut builder = CircuitBuilder::<F, 2>::new(common.config.clone());
    for _ in 0..num_noop_gate { builder.add_gate(NoopGate, vec![]); }
    for gate in &common.gates { builder.add_gate_to_gate_set(gate.clone()); }
    for _ in 0..common.num_public_inputs { builder.add_virtual_public_input(); }
    let c2 = builder.build::<C>().common;
    println!("deg {} vs {}", common.degree_bits(), c2.degree_bits());
    println!("gates {:?}\n vs   {:?}", common.gates.iter().map(|g| g.0.id()).collect::<Vec<_>>(), c2.gates.iter().map(|g| g.0.id()).collect::<Vec<_>>());
    println!("selectors {:?} vs {:?}", common.selectors_info, c2.selectors_info);
    println!("qdf {} {} nconst {} {} ngc {} {} npp {} {} fri {:?} {:?}", common.quotient_degree_factor, c2.quotient_degree_factor, common.num_constants, c2.num_constants, common.num_gate_constraints, c2.num_gate_constraints, common.num_partial_products, c2.num_partial_products, common.fri_params, c2.fri_params);
    println!("equal: {}", common == c2);
}
