use pv::props::c09::{stark_prove, stark_verify};
use pv::stk::{self, GenStark, Generated};
use starky::verif_hooks::{set_knobs, StarkProverKnobs};
fn main() {
    for seed in 0..6u64 {
        let mut rng = pv::mon::case_rng(seed, 1, 1);
        let log_n = 4;
        let Generated { spec, mut trace, pis } = stk::gen_family(&mut rng, 4, 2, 3, log_n);
        let config = stk::gen_stark_config(&mut rng, 3, true);
        let stark = GenStark::<4, 2>::new(spec.clone());
        // garbage trace
        for c in trace.iter_mut() { for x in c.iter_mut() { *x = (*x).wrapping_mul(3).wrapping_add(seed + 17) % 0xFFFF_FFFF_0000_0001; } }
        let bad = spec.check_trace(&trace, &pis);
        set_knobs(StarkProverKnobs { skip_constraint_check: true, forge_quotient_after_zeta: true, ..Default::default() });
        let proof = match stark_prove(&stark, &config, &trace, &pis) { Ok(p) => p, Err(e) => { println!("prove err {e}"); continue; } };
        set_knobs(StarkProverKnobs::default());
        println!("seed {seed}: trace violates {} constraint instances; quotient cap present: {}; verify_stark_proof -> {:?}", bad.len(), proof.proof.quotient_polys_cap.is_some(), stark_verify(&stark, &config, proof));
    }
}
