use plonky2::field::goldilocks_field::GoldilocksField as F;
use plonky2::field::polynomial::PolynomialCoeffs;
use plonky2::field::types::Field;
fn main() {
    let a = PolynomialCoeffs::new(vec![F::ZERO, F::ZERO, F::ZERO, F::ONE]); // x^3
    let b = PolynomialCoeffs::new(vec![F::ZERO, F::ONE]); // x
    let (q, r) = a.div_rem(&b);
    println!("x^3 / x: q={:?} r={:?}", q.coeffs, r.coeffs);
    let (q, r) = a.div_rem_long_division(&b);
    println!("long: q={:?} r={:?}", q.coeffs, r.coeffs);
    let a = PolynomialCoeffs::new(vec![F::ONE, F::ZERO, F::ZERO, F::ONE, F::from_canonical_u64(5)]); // 5x^4 + x^3+1
    let b = PolynomialCoeffs::new(vec![F::ONE, F::ONE]); // x+1
    let (q, r) = a.div_rem(&b);
    println!("q={:?} r={:?}", q.coeffs, r.coeffs);
    let (q, r) = a.div_rem_long_division(&b);
    println!("long: q={:?} r={:?}", q.coeffs, r.coeffs);
    // x^4 / x^2
    let a = PolynomialCoeffs::new(vec![F::ZERO, F::ZERO, F::ZERO,F::ZERO, F::ONE]);
    let b = PolynomialCoeffs::new(vec![F::ZERO, F::ZERO, F::ONE]);
    let (q, r) = a.div_rem(&b);
    println!("x^4/x^2 q={:?} r={:?}", q.coeffs, r.coeffs);
    // (x^2)(x+1) = x^3 + x^2 divided by (x+1): quotient x^2 has zero low coeffs
    let a = PolynomialCoeffs::new(vec![F::ZERO, F::ZERO, F::ONE, F::ONE]);
    let b = PolynomialCoeffs::new(vec![F::ONE, F::ONE]);
    let (q, r) = a.div_rem(&b);
    println!("(x^3+x^2)/(x+1) q={:?} r={:?}", q.coeffs, r.coeffs);
}
