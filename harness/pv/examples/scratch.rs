use plonky2::field::goldilocks_field::GoldilocksField as F;
use plonky2::plonk::config::PoseidonGoldilocksConfig;
use pv::circ;
type C = PoseidonGoldilocksConfig;
fn main() {
    let seed = 1u64;
    let mut rng = pv::mon::case_rng(seed, 19_001, 1);
    let bset = pv::gen::boundary_set();
    for lookups in [false, true] {
    let opts = circ::GenOpts { n_ops: 60, lookups, hashing: true, extension: true, max_table_len: 70, only_base2: true };
    let (p, inp) = circ::gen_program(&mut rng, &bset, &opts);
    let mut cfg = circ::fast_config();
    cfg.zero_knowledge = false;
    let built = circ::build::<C>(&p, &cfg);
    let p1 = built.data.prove(circ::witness_for(&built, &inp)).unwrap();
    let p2 = built.data.prove(circ::witness_for(&built, &inp)).unwrap();
    println!("lookups={lookups} wires_cap eq {} zs eq {} quotient eq {} openings eq {} final eq {} pow {} {}", p1.proof.wires_cap == p2.proof.wires_cap, p1.proof.plonk_zs_partial_products_cap == p2.proof.plonk_zs_partial_products_cap, p1.proof.quotient_polys_cap == p2.proof.quotient_polys_cap, p1.proof.openings == p2.proof.openings, p1.proof.opening_proof.final_poly == p2.proof.opening_proof.final_poly, p1.proof.opening_proof.pow_witness, p2.proof.opening_proof.pow_witness);
    let _ = F::default();
    }
}
