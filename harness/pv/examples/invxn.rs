// stand-alone reproduction: PolynomialCoeffs::inv_mod_xn on sparse polynomials
use plonky2::field::goldilocks_field::GoldilocksField as F;
use plonky2::field::polynomial::PolynomialCoeffs;
use plonky2::field::types::Field;

fn main() {
    for (gap, n) in [(4usize, 8usize), (4, 9), (28, 32), (28, 65), (3, 16), (2, 7)] {
        let mut c = vec![F::ZERO; gap + 3];
        c[0] = F::from_canonical_u64(5);
        c[gap] = F::from_canonical_u64(7);
        c[gap + 1] = F::from_canonical_u64(11);
        c[gap + 2] = F::from_canonical_u64(13);
        let p = PolynomialCoeffs::new(c.clone());
        let r = std::panic::catch_unwind(|| p.inv_mod_xn(n));
        match r {
            Ok(inv) => {
                let mut prod = (&p * &inv).coeffs;
                prod.truncate(n);
                let ok = prod[0] == F::ONE && prod[1..].iter().all(|x| *x == F::ZERO);
                println!("gap={gap} n={n}: inv.len()={} product==1 mod x^n: {ok}", inv.coeffs.len());
            }
            Err(_) => println!("gap={gap} n={n}: PANIC"),
        }
    }
}
